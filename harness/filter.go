package main

// Command `filter` (properties C12 and C13, specification family OciFilter): drives
// ocifilter.AccessChecker, ocifilter.Select and ocifilter.Sub over a recording backend
// in front of a fresh ocimem, with TLC-exported cases and seeded-random histories, and
// records for every call made through the wrapper: the call and its projected result
// (world.step), the policy consultations in order as the policy function saw them, the
// calls the backend received (recorder), the auth scope each of those calls carried in
// its context, and a snapshot of the in-memory registry over ALL backend repositories.
//
// There is no oracle logic here.  Policies are tables (name, kind) -> error identity that
// the scenario's reset line carries, so that spec/OciFilterTrace.tla evaluates them itself.
// The only derived data in the header are encodings: the byte sequence of every string used
// as a name (TLC cannot look inside strings) and the byte order of the backend names.

import (
	"bufio"
	"bytes"
	"context"
	"encoding/json"
	"errors"
	"flag"
	"fmt"
	"io"
	"math/rand"
	"os"
	"sort"
	"strings"
	"sync"

	"cuelabs.dev/go/oci/ociregistry"
	"cuelabs.dev/go/oci/ociregistry/ociauth"
	"cuelabs.dev/go/oci/ociregistry/ocifilter"
	"cuelabs.dev/go/oci/ociregistry/ocimem"
	"cuelabs.dev/go/oci/ociregistry/ociref"
)

func init() { commands["filter"] = filterCmd }

type fScope struct {
	Unl     bool       `json:"unl"`
	Triples [][]string `json:"triples"`
}

// fCase is one scenario: a wrapper configuration, what the backend holds beforehand, and
// the calls to make through the wrapper.
type fCase struct {
	Kind   string                       `json:"kind"` // checker | select | sub
	Imm    bool                         `json:"imm"`
	Pop    []string                     `json:"pop"`    // backend repositories given the standard content (TLC cases)
	Pre    []Op                         `json:"pre"`    // backend-level calls made directly on the registry beforehand
	Pol    map[string]map[string]string `json:"pol"`    // checker: name -> kind -> "ok" | error identity
	Allow  []string                     `json:"allow"`  // select: names allowed
	Scope  fScope                       `json:"scope"`  // auth scope in the caller's context
	Scopes []fScope                     `json:"scopes"` // optional: per-op scopes (random histories)
	Ops    []Op                         `json:"ops"`
	// FailAfter >= 0: the backend's repository listing fails after that many items and hands
	// the name FailWith over together with the error
	FailAfter int    `json:"failafter"`
	FailWith  string `json:"failwith"`
	// Conc > 0 (kind sub): the concurrent stage, that many calls per goroutine
	Conc int `json:"conc"`
	// kind tree: checkers / selects built on each other (parent 0 = the backend; parents come
	// first), all constructed before any is used; Nodes[i] is the wrapper Ops[i] goes through
	Tree  []fNode `json:"tree"`
	Nodes []int   `json:"nodes"`
	// Faults: the backend answers these methods (trace op names) with these standard errors
	Faults map[string]string `json:"faults"`
	// Scripted: the backend's repository listing delivers exactly Script, whatever it holds
	Scripted bool     `json:"scripted"`
	Script   []string `json:"script"`
}

// names that are not repository names
var illNames = []string{"Secret/Repo", "secret//repo", "secret/repo/", "SECRET", "-lead", "", "a*", "*/x", strings.Repeat("a", 299) + "/"}

var faultErrs = map[string]error{
	"UNSUPPORTED": ociregistry.ErrUnsupported, "DENIED": ociregistry.ErrDenied, "BLOB_UNKNOWN": ociregistry.ErrBlobUnknown,
	"NAME_UNKNOWN": ociregistry.ErrNameUnknown, "MANIFEST_UNKNOWN": ociregistry.ErrManifestUnknown,
	"UNAUTHORIZED": ociregistry.ErrUnauthorized, "TOOMANYREQUESTS": ociregistry.ErrTooManyRequests,
}
var faultOps = []string{"MountBlob", "PushBlob", "PushManifest", "DeleteBlob", "DeleteManifest", "DeleteTag",
	"GetBlob", "ResolveBlob", "ResolveManifest", "ResolveTag"}
var faultCodes = []string{"UNSUPPORTED", "DENIED", "BLOB_UNKNOWN", "NAME_UNKNOWN", "MANIFEST_UNKNOWN", "UNAUTHORIZED", "TOOMANYREQUESTS"}

// faulty sits between the recorder and the registry: the recorder still sees every call the
// wrapper under test makes, the registry never sees the calls that are answered here.
type faulty struct {
	ociregistry.Interface
	faults map[string]string
}

func (f *faulty) err(m string) error {
	if c, ok := f.faults[m]; ok {
		if e, ok := faultErrs[c]; ok {
			return e
		}
		return fmt.Errorf("backend: unknown fault %q", c)
	}
	return nil
}
func (f *faulty) MountBlob(ctx context.Context, from, to string, d ociregistry.Digest) (ociregistry.Descriptor, error) {
	if err := f.err("MountBlob"); err != nil {
		return ociregistry.Descriptor{}, err
	}
	return f.Interface.MountBlob(ctx, from, to, d)
}
func (f *faulty) PushBlob(ctx context.Context, repo string, desc ociregistry.Descriptor, content io.Reader) (ociregistry.Descriptor, error) {
	if err := f.err("PushBlob"); err != nil {
		return ociregistry.Descriptor{}, err
	}
	return f.Interface.PushBlob(ctx, repo, desc, content)
}
func (f *faulty) PushManifest(ctx context.Context, repo string, tag string, contents []byte, mediaType string) (ociregistry.Descriptor, error) {
	if err := f.err("PushManifest"); err != nil {
		return ociregistry.Descriptor{}, err
	}
	return f.Interface.PushManifest(ctx, repo, tag, contents, mediaType)
}
func (f *faulty) DeleteBlob(ctx context.Context, repo string, d ociregistry.Digest) error {
	if err := f.err("DeleteBlob"); err != nil {
		return err
	}
	return f.Interface.DeleteBlob(ctx, repo, d)
}
func (f *faulty) DeleteManifest(ctx context.Context, repo string, d ociregistry.Digest) error {
	if err := f.err("DeleteManifest"); err != nil {
		return err
	}
	return f.Interface.DeleteManifest(ctx, repo, d)
}
func (f *faulty) DeleteTag(ctx context.Context, repo string, tag string) error {
	if err := f.err("DeleteTag"); err != nil {
		return err
	}
	return f.Interface.DeleteTag(ctx, repo, tag)
}
func (f *faulty) GetBlob(ctx context.Context, repo string, d ociregistry.Digest) (ociregistry.BlobReader, error) {
	if err := f.err("GetBlob"); err != nil {
		return nil, err
	}
	return f.Interface.GetBlob(ctx, repo, d)
}
func (f *faulty) ResolveBlob(ctx context.Context, repo string, d ociregistry.Digest) (ociregistry.Descriptor, error) {
	if err := f.err("ResolveBlob"); err != nil {
		return ociregistry.Descriptor{}, err
	}
	return f.Interface.ResolveBlob(ctx, repo, d)
}
func (f *faulty) ResolveManifest(ctx context.Context, repo string, d ociregistry.Digest) (ociregistry.Descriptor, error) {
	if err := f.err("ResolveManifest"); err != nil {
		return ociregistry.Descriptor{}, err
	}
	return f.Interface.ResolveManifest(ctx, repo, d)
}
func (f *faulty) ResolveTag(ctx context.Context, repo string, tag string) (ociregistry.Descriptor, error) {
	if err := f.err("ResolveTag"); err != nil {
		return ociregistry.Descriptor{}, err
	}
	return f.Interface.ResolveTag(ctx, repo, tag)
}

func scriptEv(fr *fRun, s []string) []string {
	out := []string{}
	for _, x := range s {
		fr.name(x)
		out = append(out, x)
	}
	return out
}

func faultsEv(m map[string]string) [][]string {
	out := [][]string{}
	for _, k := range faultOps {
		if c, ok := m[k]; ok {
			out = append(out, []string{k, c})
		}
	}
	return out
}

type fNode struct {
	Kind   string                       `json:"kind"` // checker | select
	Parent int                          `json:"parent"`
	Pol    map[string]map[string]string `json:"pol"`
	Allow  []string                     `json:"allow"`
}

// wnode is one wrapper under test with what the harness needs to drive it.
type wnode struct {
	value ociregistry.Interface // the wrapper itself (what wrappers built on it are given)
	ri    *reiter
	w     *world
	buf   *bytes.Buffer
	cons  [][]string // consultations its policy function saw during the current call
}

func (fr *fRun) mkChecker(n *wnode, inner ociregistry.Interface, kind string, pol map[string]map[string]string, allowed []string) {
	switch kind {
	case "checker":
		n.value = ocifilter.AccessChecker(inner, func(name string, kind ocifilter.AccessKind) error {
			k, ok := kindNames[kind]
			if !ok {
				k = fmt.Sprintf("kind%d", int(kind))
			}
			n.cons = append(n.cons, []string{name, k})
			fr.name(name)
			id := pol[name][k]
			if id == "" || id == "ok" {
				return nil
			}
			if e, ok := polErrs[id]; ok {
				return e
			}
			return fmt.Errorf("policy: unknown error identity %q", id)
		})
	case "select":
		allow := map[string]bool{}
		for _, a := range allowed {
			allow[a] = true
		}
		n.value = ocifilter.Select(inner, func(name string) bool {
			n.cons = append(n.cons, []string{name, "-"})
			fr.name(name)
			return allow[name]
		})
	default:
		panic("unknown wrapper kind " + kind)
	}
}

func (c *fCase) UnmarshalJSON(b []byte) error {
	type plain fCase
	p := plain{FailAfter: -1}
	if err := json.Unmarshal(b, &p); err != nil {
		return err
	}
	*c = fCase(p)
	return nil
}

var errListing = errors.New("backend: listing interrupted")

// errLister is a backend whose repository listing fails part way through, delivering a
// (possibly non-empty) name together with the error, as the Seq contract permits.
type errLister struct {
	ociregistry.Interface
	after    int
	with     string
	scripted bool
	script   []string
}

func (l *errLister) Repositories(ctx context.Context, startAfter string) ociregistry.Seq[string] {
	seq := l.Interface.Repositories(ctx, startAfter)
	if l.scripted {
		// the call is made (and recorded) all the same; what it lists is not used
		script := l.script
		seq = func(yield func(string, error) bool) {
			for _, x := range script {
				if !yield(x, nil) {
					return
				}
			}
		}
	}
	if l.after < 0 {
		return seq
	}
	return func(yield func(string, error) bool) {
		n := 0
		stopped := false
		seq(func(x string, err error) bool {
			if err != nil || n >= l.after {
				return false
			}
			n++
			if !yield(x, nil) {
				stopped = true
				return false
			}
			return true
		})
		if !stopped {
			yield(l.with, errListing)
		}
	}
}

// the errors a table policy can answer with: each identity is a value of its own, so that
// "the policy's error" is observable with errors.Is even when the backend uses the same code.
var polErrs = map[string]error{
	"E_DENIED":  fmt.Errorf("policy E_DENIED: %w", ociregistry.ErrDenied),
	"E_UNKNOWN": fmt.Errorf("policy E_UNKNOWN: %w", ociregistry.ErrNameUnknown),
	"E_UNAUTH":  fmt.Errorf("policy E_UNAUTH: %w", ociregistry.ErrUnauthorized),
	"E_CUSTOM1": errors.New("policy E_CUSTOM1: no"),
	"E_CUSTOM2": errors.New("policy E_CUSTOM2: not today"),
}
var polErrIDs = []string{"E_DENIED", "E_UNKNOWN", "E_UNAUTH", "E_CUSTOM1", "E_CUSTOM2"}

var kindNames = map[ocifilter.AccessKind]string{
	ocifilter.AccessRead: "Read", ocifilter.AccessWrite: "Write", ocifilter.AccessDelete: "Delete", ocifilter.AccessList: "List",
}
var kindList = []string{"Read", "Write", "Delete", "List"}

func projScope(s ociauth.Scope) ev {
	tr := [][]string{}
	if s.IsUnlimited() {
		return ev{"unl": true, "triples": tr}
	}
	s.Iter()(func(rs ociauth.ResourceScope) bool {
		tr = append(tr, []string{rs.ResourceType, rs.Resource, rs.Action})
		return true
	})
	return ev{"unl": false, "triples": tr}
}

func (s fScope) apply(ctx context.Context) context.Context {
	if s.Unl {
		return ociauth.ContextWithScope(ctx, ociauth.UnlimitedScope())
	}
	if len(s.Triples) == 0 {
		return ctx
	}
	var rs []ociauth.ResourceScope
	for _, t := range s.Triples {
		rs = append(rs, ociauth.ResourceScope{ResourceType: t[0], Resource: t[1], Action: t[2]})
	}
	return ociauth.ContextWithScope(ctx, ociauth.NewScope(rs...))
}

// scopeCap sits between the wrapper under test and the recorder and notes the auth scope
// that each Interface-level call carries in its context.
type scopeCap struct {
	ociregistry.Interface
	seen []ev
}

func (s *scopeCap) note(ctx context.Context) {
	s.seen = append(s.seen, projScope(ociauth.ScopeFromContext(ctx)))
}
func (s *scopeCap) take() []ev {
	out := s.seen
	if out == nil {
		out = []ev{}
	}
	s.seen = nil
	return out
}

func (s *scopeCap) GetBlob(ctx context.Context, repo string, d ociregistry.Digest) (ociregistry.BlobReader, error) {
	s.note(ctx)
	return s.Interface.GetBlob(ctx, repo, d)
}
func (s *scopeCap) GetBlobRange(ctx context.Context, repo string, d ociregistry.Digest, o0, o1 int64) (ociregistry.BlobReader, error) {
	s.note(ctx)
	return s.Interface.GetBlobRange(ctx, repo, d, o0, o1)
}
func (s *scopeCap) GetManifest(ctx context.Context, repo string, d ociregistry.Digest) (ociregistry.BlobReader, error) {
	s.note(ctx)
	return s.Interface.GetManifest(ctx, repo, d)
}
func (s *scopeCap) GetTag(ctx context.Context, repo string, tag string) (ociregistry.BlobReader, error) {
	s.note(ctx)
	return s.Interface.GetTag(ctx, repo, tag)
}
func (s *scopeCap) ResolveBlob(ctx context.Context, repo string, d ociregistry.Digest) (ociregistry.Descriptor, error) {
	s.note(ctx)
	return s.Interface.ResolveBlob(ctx, repo, d)
}
func (s *scopeCap) ResolveManifest(ctx context.Context, repo string, d ociregistry.Digest) (ociregistry.Descriptor, error) {
	s.note(ctx)
	return s.Interface.ResolveManifest(ctx, repo, d)
}
func (s *scopeCap) ResolveTag(ctx context.Context, repo string, tag string) (ociregistry.Descriptor, error) {
	s.note(ctx)
	return s.Interface.ResolveTag(ctx, repo, tag)
}
func (s *scopeCap) PushBlob(ctx context.Context, repo string, desc ociregistry.Descriptor, content io.Reader) (ociregistry.Descriptor, error) {
	s.note(ctx)
	return s.Interface.PushBlob(ctx, repo, desc, content)
}
func (s *scopeCap) PushBlobChunked(ctx context.Context, repo string, chunkSize int) (ociregistry.BlobWriter, error) {
	s.note(ctx)
	return s.Interface.PushBlobChunked(ctx, repo, chunkSize)
}
func (s *scopeCap) PushBlobChunkedResume(ctx context.Context, repo, id string, offset int64, chunkSize int) (ociregistry.BlobWriter, error) {
	s.note(ctx)
	return s.Interface.PushBlobChunkedResume(ctx, repo, id, offset, chunkSize)
}
func (s *scopeCap) MountBlob(ctx context.Context, from, to string, d ociregistry.Digest) (ociregistry.Descriptor, error) {
	s.note(ctx)
	return s.Interface.MountBlob(ctx, from, to, d)
}
func (s *scopeCap) PushManifest(ctx context.Context, repo string, tag string, contents []byte, mediaType string) (ociregistry.Descriptor, error) {
	s.note(ctx)
	return s.Interface.PushManifest(ctx, repo, tag, contents, mediaType)
}
func (s *scopeCap) DeleteBlob(ctx context.Context, repo string, d ociregistry.Digest) error {
	s.note(ctx)
	return s.Interface.DeleteBlob(ctx, repo, d)
}
func (s *scopeCap) DeleteManifest(ctx context.Context, repo string, d ociregistry.Digest) error {
	s.note(ctx)
	return s.Interface.DeleteManifest(ctx, repo, d)
}
func (s *scopeCap) DeleteTag(ctx context.Context, repo string, tag string) error {
	s.note(ctx)
	return s.Interface.DeleteTag(ctx, repo, tag)
}
func (s *scopeCap) Repositories(ctx context.Context, startAfter string) ociregistry.Seq[string] {
	s.note(ctx)
	return s.Interface.Repositories(ctx, startAfter)
}
func (s *scopeCap) Tags(ctx context.Context, repo string, startAfter string) ociregistry.Seq[string] {
	s.note(ctx)
	return s.Interface.Tags(ctx, repo, startAfter)
}
func (s *scopeCap) Referrers(ctx context.Context, repo string, d ociregistry.Digest, artifactType string) ociregistry.Seq[ociregistry.Descriptor] {
	s.note(ctx)
	return s.Interface.Referrers(ctx, repo, d, artifactType)
}

// reiter sits on top of the wrapper under test: every listing sequence the wrapper returns is
// consumed three times (the first time by world.step, whose consumer sees it as usual), and
// what the further consumptions delivered is noted for the event.
type reiter struct {
	ociregistry.Interface
	cat     *Catalog
	again   []ev
	errwith []string // what was delivered together with an error, pass by pass
}

const extraPasses = 2

func reiterSeq[T any](r *reiter, seq ociregistry.Seq[T], name func(T) string) ociregistry.Seq[T] {
	return func(yield func(T, error) bool) {
		seq(func(x T, err error) bool {
			if err != nil {
				r.errwith = append(r.errwith, name(x))
			}
			return yield(x, err)
		})
		for i := 0; i < extraPasses; i++ {
			items := []string{}
			ok := true
			seq(func(x T, err error) bool {
				if err != nil {
					r.errwith = append(r.errwith, name(x))
					ok = false
					return true
				}
				items = append(items, name(x))
				return true
			})
			r.again = append(r.again, ev{"ok": ok, "items": items})
		}
	}
}

func (r *reiter) take() ([]ev, []string) {
	out, ew := r.again, r.errwith
	if out == nil {
		out = []ev{}
	}
	if ew == nil {
		ew = []string{}
	}
	r.again, r.errwith = nil, nil
	return out, ew
}

func (r *reiter) Repositories(ctx context.Context, startAfter string) ociregistry.Seq[string] {
	return reiterSeq(r, r.Interface.Repositories(ctx, startAfter), func(s string) string { return s })
}
func (r *reiter) Tags(ctx context.Context, repo string, startAfter string) ociregistry.Seq[string] {
	return reiterSeq(r, r.Interface.Tags(ctx, repo, startAfter), func(s string) string { return s })
}
func (r *reiter) Referrers(ctx context.Context, repo string, d ociregistry.Digest, artifactType string) ociregistry.Seq[ociregistry.Descriptor] {
	return reiterSeq(r, r.Interface.Referrers(ctx, repo, d, artifactType), func(x ociregistry.Descriptor) string {
		if x.Digest == "" {
			return ""
		}
		return r.cat.cidOfDigest(x.Digest)
	})
}

// Upload session names starting with "e" stand for the EMPTY upload id, names starting with
// "o" for odd ones; such a session is resumed without ever having been started.  (For the
// empty id the registry makes up a fresh id at every resume, so each "e" name, which the
// generators resume once only, is a session of its own.)
var oddIDs = []string{"../x", " ", "0", "a/b", "%2e%2e", "fresh-u1?x=1"}

func oddID(u string) (string, bool) {
	if strings.HasPrefix(u, "e") {
		return "", true
	}
	if strings.HasPrefix(u, "o") {
		n := 0
		for _, ch := range u[1:] {
			n = n*7 + int(ch)
		}
		// the session name is part of the id: two names never share an id within a history
		// (the registry would rightly continue the one session, the model has two)
		return oddIDs[n%len(oddIDs)] + "~" + u, true
	}
	return "", false
}

// takeAll returns every backend call logged since the last time, in order.
func takeAll(r *recorder) []ev {
	r.mu.Lock()
	defer r.mu.Unlock()
	out := []ev{}
	for _, e := range r.calls {
		delete(e, "#")
		out = append(out, e)
	}
	r.calls = nil
	return out
}

// fRun is one output file in the making: events are buffered because the header carries the
// table of every string that occurred as a name, backend-seen names included.
type fRun struct {
	cat     *Catalog // contents, tags, uploads; Repos = the names callers use (view names for sub)
	back    *Catalog // same contents; Repos = all backend repositories
	prefix  string   // the composed prefix
	chain   []string // the prefixes of the stacked Sub views, innermost first
	names   map[string]bool
	buf     bytes.Buffer
	n       int
	perKind map[string]int
}

func (fr *fRun) name(s string) { fr.names[s] = true }

func (fr *fRun) write(e ev) {
	b, err := json.Marshal(e)
	if err != nil {
		panic(err)
	}
	fr.buf.Write(b)
	fr.buf.WriteByte('\n')
	fr.n++
}

func charsOf(s string) []int {
	out := make([]int, len(s))
	for i := 0; i < len(s); i++ {
		out[i] = int(s[i])
	}
	return out
}

// drain decodes the events a world wrote to its private buffer.
func drain(b *bytes.Buffer) []ev {
	var out []ev
	dec := json.NewDecoder(b)
	for {
		var e ev
		if err := dec.Decode(&e); err != nil {
			break
		}
		out = append(out, e)
	}
	b.Reset()
	return out
}

func (fr *fRun) runCase(c fCase, gen ev) {
	ctx := context.Background()
	mem := ocimem.NewWithConfig(&ocimem.Config{ImmutableTags: c.Imm})
	rec := &recorder{Interface: &faulty{Interface: mem, faults: c.Faults}, cat: fr.back}
	sc := &scopeCap{Interface: &errLister{Interface: rec, after: c.FailAfter, with: c.FailWith, scripted: c.Scripted, script: c.Script}}
	if c.Conc > 0 {
		fr.runConc(c, mem)
		return
	}
	var nodes []*wnode
	switch c.Kind {
	case "checker", "select":
		n := &wnode{}
		fr.mkChecker(n, sc, c.Kind, c.Pol, c.Allow)
		nodes = append(nodes, n)
	case "tree":
		for _, t := range c.Tree {
			n := &wnode{}
			var inner ociregistry.Interface = sc
			if t.Parent > 0 {
				inner = nodes[t.Parent-1].value
			}
			fr.mkChecker(n, inner, t.Kind, t.Pol, t.Allow)
			nodes = append(nodes, n)
		}
	case "sub":
		n := &wnode{value: sc}
		for _, p := range fr.chain {
			n.value = ocifilter.Sub(n.value, p)
		}
		nodes = append(nodes, n)
	default:
		panic("unknown kind " + c.Kind)
	}
	// every wrapper exists before any of them is used.  Upload sessions belong to the backend,
	// not to the wrapper they were started through: the wrappers' worlds share one table of
	// session ids and writers (a session name is one session whichever wrapper names it)
	writers, ids := map[string]BlobWriterT{}, map[string]string{}
	for _, n := range nodes {
		n.buf = &bytes.Buffer{}
		n.ri = &reiter{Interface: n.value, cat: fr.cat}
		n.w = &world{cat: fr.cat, top: n.ri, writers: writers, ids: ids, out: json.NewEncoder(n.buf)}
	}
	var bbuf bytes.Buffer
	wb := &world{cat: fr.back, top: mem, writers: map[string]BlobWriterT{}, ids: map[string]string{}, out: json.NewEncoder(&bbuf)}
	wb.snapAll = []ociregistry.Interface{mem}

	pol := c.Pol
	if pol == nil {
		pol = map[string]map[string]string{}
	}
	allow := c.Allow
	if allow == nil {
		allow = []string{}
	}
	cj, _ := json.Marshal(c)
	var cm ev
	json.Unmarshal(cj, &cm)
	stripNulls(cm)
	chain := fr.chain
	if chain == nil {
		chain = []string{}
	}
	fr.write(ev{"op": "reset", "kind": c.Kind, "imm": c.Imm, "pol": pol, "allow": allow, "chain": chain, "failafter": c.FailAfter, "failwith": c.FailWith, "tree": treeEv(c.Tree), "faults": faultsEv(c.Faults), "scripted": c.Scripted, "script": scriptEv(fr, c.Script), "case": cm})
	fr.perKind[c.Kind]++

	// what the backend holds beforehand: written directly, not through the wrapper
	pre := append([]Op{}, c.Pre...)
	for _, r := range c.Pop {
		pre = append(pre, Op{Op: "PushBlob", R: r, C: "b1", DD: "b1", DS: len(fr.cat.byID["b1"].Data)},
			Op{Op: "PushManifest", R: r, T: "t1", C: "img", MT: "image"})
	}
	for _, op := range pre {
		wb.step(ctx, op)
		for _, e := range drain(&bbuf) {
			e["via"] = "backend"
			fr.fix(e, op)
			fr.write(e)
		}
	}
	wb.snap(ctx)
	for _, e := range drain(&bbuf) {
		fr.write(e)
	}
	for i, op := range c.Ops {
		s := c.Scope
		if i < len(c.Scopes) {
			s = c.Scopes[i]
		}
		cctx := s.apply(ctx)
		ni := 1
		if i < len(c.Nodes) {
			ni = c.Nodes[i]
		}
		nd := nodes[ni-1]
		for _, n := range nodes {
			n.cons = nil
			n.ri.take()
		}
		takeAll(rec)
		sc.take()
		ri, ww, wbuf := nd.ri, nd.w, nd.buf
		if id, ok := oddID(op.U); ok && op.Op == "Resume" {
			ww.ids[op.R+"|"+op.U] = id
		}
		ww.step(cctx, op)
		for _, e := range drain(wbuf) {
			e["via"] = "wrapper"
			e["cons"] = append([][]string{}, nd.cons...)
			if c.Kind == "tree" {
				// the consultations level by level, from the wrapper called down to the backend,
				// and whatever a wrapper that is not on that path was asked
				e["node"] = ni
				onPath := map[int]bool{}
				lcons := [][][]string{}
				for k := ni; k > 0; k = c.Tree[k-1].Parent {
					onPath[k] = true
					lcons = append(lcons, append([][]string{}, nodes[k-1].cons...))
				}
				e["lcons"] = lcons
				off := [][]string{}
				for k, n := range nodes {
					if !onPath[k+1] {
						for _, q := range n.cons {
							off = append(off, []string{fmt.Sprint(k + 1), q[0], q[1]})
						}
					}
				}
				e["offpath"] = off
			}
			calls := takeAll(rec)
			for _, b := range calls {
				for _, f := range []string{"r", "from"} {
					if v, ok := b[f].(string); ok {
						fr.name(v)
					}
				}
			}
			e["backend"] = calls
			e["bscopes"] = sc.take()
			again, errwith := ri.take()
			e["again"] = again
			e["errwith"] = errwith
			for _, n := range errwith {
				fr.name(n)
			}
			e["scope"] = projScope(ociauth.ScopeFromContext(cctx))
			for _, t := range s.Triples {
				fr.name(t[1])
			}
			fr.fix(e, op)
			fr.write(e)
		}
		wb.snap(ctx)
		for _, e := range drain(&bbuf) {
			fr.write(e)
		}
	}
}

type concKey struct{}

// concCap is the backend of the concurrent stage: it notes, per call, which goroutine's call it
// is (a value the caller put in the context), the method, the repository named and the scope found
// in the context, and delegates.
type concCap struct {
	ociregistry.Interface
	mu   sync.Mutex
	seen map[string]*concObs
	ord  []string
}

type concObs struct {
	g      int
	m, r   string
	bscope ev
	count  int
}

func (c *concCap) note(ctx context.Context, m, repo string) {
	g, _ := ctx.Value(concKey{}).(int)
	p := projScope(ociauth.ScopeFromContext(ctx))
	b, _ := json.Marshal(p)
	k := fmt.Sprintf("%d|%s|%s|%s", g, m, repo, b)
	c.mu.Lock()
	defer c.mu.Unlock()
	if o := c.seen[k]; o != nil {
		o.count++
		return
	}
	if len(c.ord) >= 120 {
		return // enough distinct observations
	}
	c.seen[k] = &concObs{g: g, m: m, r: repo, bscope: p, count: 1}
	c.ord = append(c.ord, k)
}

func (c *concCap) GetBlob(ctx context.Context, repo string, d ociregistry.Digest) (ociregistry.BlobReader, error) {
	c.note(ctx, "GetBlob", repo)
	return c.Interface.GetBlob(ctx, repo, d)
}
func (c *concCap) ResolveBlob(ctx context.Context, repo string, d ociregistry.Digest) (ociregistry.Descriptor, error) {
	c.note(ctx, "ResolveBlob", repo)
	return c.Interface.ResolveBlob(ctx, repo, d)
}
func (c *concCap) ResolveTag(ctx context.Context, repo string, tag string) (ociregistry.Descriptor, error) {
	c.note(ctx, "ResolveTag", repo)
	return c.Interface.ResolveTag(ctx, repo, tag)
}
func (c *concCap) DeleteTag(ctx context.Context, repo string, tag string) error {
	c.note(ctx, "DeleteTag", repo)
	return c.Interface.DeleteTag(ctx, repo, tag)
}
func (c *concCap) Tags(ctx context.Context, repo string, startAfter string) ociregistry.Seq[string] {
	c.note(ctx, "ListTags", repo)
	return c.Interface.Tags(ctx, repo, startAfter)
}
func (c *concCap) Referrers(ctx context.Context, repo string, d ociregistry.Digest, at string) ociregistry.Seq[ociregistry.Descriptor] {
	c.note(ctx, "Referrers", repo)
	return c.Interface.Referrers(ctx, repo, d, at)
}
func (c *concCap) Repositories(ctx context.Context, startAfter string) ociregistry.Seq[string] {
	c.note(ctx, "ListRepos", "")
	return c.Interface.Repositories(ctx, startAfter)
}

// runConc: several goroutines call read, delete-of-nothing and listing methods through ONE
// Sub view at the same time, each with a (large) scope of its own in its context.
func (fr *fRun) runConc(c fCase, mem ociregistry.Interface) {
	const goroutines = 8
	cc := &concCap{Interface: mem, seen: map[string]*concObs{}}
	var top ociregistry.Interface = cc
	for _, p := range fr.chain {
		top = ocifilter.Sub(top, p)
	}
	cj, _ := json.Marshal(c)
	var cm ev
	json.Unmarshal(cj, &cm)
	stripNulls(cm)
	fr.write(ev{"op": "reset", "kind": "sub", "imm": false, "pol": ev{}, "allow": []string{}, "chain": fr.chain,
		"failafter": -1, "failwith": "", "tree": []ev{}, "faults": [][]string{}, "scripted": false, "script": []string{}, "case": cm})
	fr.perKind["conc"]++
	scopes := make([]ev, goroutines)
	ctxs := make([]context.Context, goroutines)
	names := make([]string, goroutines)
	for g := 0; g < goroutines; g++ {
		tr := [][]string{{"registry", "catalog", "*"}, {"repository", fmt.Sprintf("../x%d", g), "push"}}
		for j := 0; j < 40+10*g; j++ {
			tr = append(tr, []string{"repository", fmt.Sprintf("g%d/r%03d", g, j), []string{"pull", "push"}[j%2]})
		}
		ctx := fScope{Triples: tr}.apply(context.Background())
		scopes[g] = projScope(ociauth.ScopeFromContext(ctx))
		ctxs[g] = context.WithValue(ctx, concKey{}, g)
		names[g] = fmt.Sprintf("g%d", g)
	}
	d := fr.cat.Contents[0].Digest
	var wg sync.WaitGroup
	start := make(chan struct{})
	panics := make(chan string, goroutines)
	for g := 0; g < goroutines; g++ {
		wg.Add(1)
		go func(g int) {
			defer wg.Done()
			defer func() {
				if p := recover(); p != nil {
					panics <- fmt.Sprint(p)
				}
			}()
			<-start
			ctx, r := ctxs[g], names[g]
			for i := 0; i < c.Conc; i++ {
				switch (i + g) % 7 {
				case 0:
					top.GetBlob(ctx, r, d)
				case 1:
					top.ResolveBlob(ctx, r, d)
				case 2:
					top.ResolveTag(ctx, r, "t")
				case 3:
					top.DeleteTag(ctx, r, "t")
				case 4:
					top.Tags(ctx, r, "")(func(string, error) bool { return true })
				case 5:
					top.Referrers(ctx, r, d, "")(func(ociregistry.Descriptor, error) bool { return true })
				case 6:
					top.Repositories(ctx, "")(func(string, error) bool { return true })
				}
			}
		}(g)
	}
	close(start)
	wg.Wait()
	close(panics)
	for _, k := range cc.ord {
		o := cc.seen[k]
		fr.write(ev{"op": "cscope", "via": "wrapper", "g": o.g, "m": o.m, "r": names[o.g], "br": o.r,
			"scope": scopes[o.g], "bscope": o.bscope, "count": o.count})
	}
	for p := range panics {
		fr.write(ev{"op": "panic", "inop": "concurrent stage", "panic": p})
	}
}

func sameOp(a, b Op) bool {
	ja, _ := json.Marshal(a)
	jb, _ := json.Marshal(b)
	return string(ja) == string(jb)
}

func treeEv(t []fNode) []ev {
	out := []ev{}
	for _, n := range t {
		pol := n.Pol
		if pol == nil {
			pol = map[string]map[string]string{}
		}
		allow := n.Allow
		if allow == nil {
			allow = []string{}
		}
		out = append(out, ev{"kind": n.Kind, "parent": n.Parent, "pol": pol, "allow": allow})
	}
	return out
}

// randTree draws wrappers built on each other: chains up to depth 4, with several wrappers
// built on the same inner one.
func randTree(rnd *rand.Rand, names []string) []fNode {
	var t []fNode
	add := func(parent int) int {
		n := fNode{Parent: parent, Kind: []string{"checker", "select"}[rnd.Intn(2)]}
		if n.Kind == "checker" {
			n.Pol = randPolicy(rnd, names, polErrIDs[:1+rnd.Intn(len(polErrIDs))])
		} else {
			for _, r := range append([]string{"*"}, names...) {
				if rnd.Intn(3) != 0 {
					n.Allow = append(n.Allow, r)
				}
			}
		}
		t = append(t, n)
		return len(t)
	}
	depth := rnd.Intn(4) // a chain first ...
	last := 0
	for i := 0; i < depth; i++ {
		last = add(last)
	}
	for i := 2 + rnd.Intn(2); i > 0; i-- { // ... then siblings on its top
		add(last)
	}
	for i := rnd.Intn(3); i > 0; i-- { // and a few more anywhere
		add(rnd.Intn(len(t) + 1))
	}
	return t
}

// fix gives an event every field the specification reads, each of one type, and notes its names.
func (fr *fRun) fix(e ev, op Op) {
	for _, f := range []string{"r", "from", "start", "c", "t", "u", "dd", "mt"} {
		if _, ok := e[f]; !ok {
			e[f] = ""
		}
	}
	fr.name(op.R)
	fr.name(op.From)
	if s, ok := e["start"].(string); ok {
		fr.name(s)
	}
	// which of the table policy's error values the returned error is (each carries its
	// identity in its text; world.step records the text)
	pes := []string{}
	if msg, ok := e["msg"].(string); ok {
		for _, id := range polErrIDs {
			if strings.Contains(msg, "policy "+id+":") {
				pes = append(pes, id)
			}
		}
	}
	e["pes"] = pes
}

func stripNulls(m map[string]any) {
	for k, v := range m {
		switch x := v.(type) {
		case nil:
			delete(m, k)
		case map[string]any:
			stripNulls(x)
		case []any:
			for _, y := range x {
				if mm, ok := y.(map[string]any); ok {
					stripNulls(mm)
				}
			}
		}
	}
}

func filterReadLines(path string, each func(line []byte) error) error {
	f, err := os.Open(path)
	if err != nil {
		return err
	}
	defer f.Close()
	sc := bufio.NewScanner(f)
	sc.Buffer(make([]byte, 1<<20), 1<<28)
	for sc.Scan() {
		if len(bytes.TrimSpace(sc.Bytes())) == 0 {
			continue
		}
		if err := each(append([]byte{}, sc.Bytes()...)); err != nil {
			return err
		}
	}
	return sc.Err()
}

// ------------------------------------------------------------------ generation

var hostileSegs = []string{"a", ".", "..", "", "A"}

// hostileName draws a caller string: up to three segments (an empty segment gives leading,
// trailing and double slashes), or a name aimed at the siblings of the prefix.
func hostileName(rnd *rand.Rand, prefix string, outside []string) string {
	if rnd.Intn(4) == 0 && len(outside) > 0 {
		o := outside[rnd.Intn(len(outside))]
		ups := strings.Repeat("../", 1+strings.Count(prefix, "/"))
		switch rnd.Intn(5) {
		case 0:
			return o
		case 1:
			return "../" + o
		case 2:
			return ups + o
		case 3:
			return "a/../" + ups + o
		default:
			return "/" + o
		}
	}
	n := 1 + rnd.Intn(3)
	segs := make([]string, n)
	for i := range segs {
		segs[i] = hostileSegs[rnd.Intn(len(hostileSegs))]
	}
	return strings.Join(segs, "/")
}

func randScope(rnd *rand.Rand, names []string, prefix string, outside []string) fScope {
	switch rnd.Intn(6) {
	case 0:
		return fScope{Triples: [][]string{}}
	case 1:
		return fScope{Unl: true, Triples: [][]string{}}
	}
	n := 1 + rnd.Intn(4)
	var tr [][]string
	for i := 0; i < n; i++ {
		switch rnd.Intn(6) {
		case 0:
			tr = append(tr, []string{"registry", "catalog", "*"})
		case 1:
			tr = append(tr, []string{"other", names[rnd.Intn(len(names))], "pull"})
		case 2:
			tr = append(tr, []string{"repository", hostileName(rnd, prefix, outside), []string{"pull", "push"}[rnd.Intn(2)]})
		default:
			tr = append(tr, []string{"repository", names[rnd.Intn(len(names))], []string{"pull", "push", "delete", "*"}[rnd.Intn(4)]})
		}
	}
	return fScope{Triples: tr}
}

// hostileOp: one random method called with hostile names.  Upload sessions it starts get
// identifiers of their own (fresh[0] counts them), since a hostile name can be a valid one.
func hostileOp(rnd *rand.Rand, cat *Catalog, prefix string, outside []string, fresh *int) Op {
	var blobs, mans []string
	for _, c := range cat.Contents {
		if c.Man {
			mans = append(mans, c.ID)
		} else {
			blobs = append(blobs, c.ID)
		}
	}
	pick := func(xs []string) string { return xs[rnd.Intn(len(xs))] }
	h := func() string { return hostileName(rnd, prefix, outside) }
	b := pick(blobs)
	switch rnd.Intn(19) {
	case 0:
		return Op{Op: "GetBlob", R: h(), C: b}
	case 1:
		return Op{Op: "GetBlobRange", R: h(), C: b, O0: 0, O1: -1}
	case 2:
		return Op{Op: "GetManifest", R: h(), C: pick(mans)}
	case 3:
		return Op{Op: "GetTag", R: h(), T: pick(cat.Tags)}
	case 4:
		return Op{Op: "ResolveBlob", R: h(), C: b}
	case 5:
		return Op{Op: "ResolveManifest", R: h(), C: pick(mans)}
	case 6:
		return Op{Op: "ResolveTag", R: h(), T: pick(cat.Tags)}
	case 7:
		return Op{Op: "PushBlob", R: h(), C: b, DD: b, DS: len(cat.byID[b].Data)}
	case 8:
		*fresh++
		return Op{Op: "PushBlobChunked", R: h(), U: fmt.Sprintf("h%d", *fresh)}
	case 9:
		*fresh++
		return Op{Op: "Resume", R: h(), U: fmt.Sprintf("h%d", *fresh), Off: -1}
	case 10:
		if rnd.Intn(2) == 0 {
			return Op{Op: "MountBlob", From: h(), R: pick(cat.Repos), C: b}
		}
		return Op{Op: "MountBlob", From: pick(cat.Repos), R: h(), C: b}
	case 11:
		m := pick(mans)
		return Op{Op: "PushManifest", R: h(), T: pick(append([]string{"-"}, cat.Tags...)), C: m, MT: cat.byID[m].Natural}
	case 12:
		return Op{Op: "DeleteBlob", R: h(), C: b}
	case 13:
		return Op{Op: "DeleteManifest", R: h(), C: pick(mans)}
	case 14:
		return Op{Op: "DeleteTag", R: h(), T: pick(cat.Tags)}
	case 15:
		return Op{Op: "ListTags", R: h()}
	case 16:
		return Op{Op: "Referrers", R: h(), C: pick(mans)}
	default:
		// listings from hostile start points
		starts := []string{h(), prefix, prefix + "/" + pick(cat.Repos), pick(cat.Repos) + "/", "/", "~"}
		return Op{Op: "ListRepos", Start: pick(starts)}
	}
}

// prePopulate draws backend-level calls that give some of the backend repositories content.
func prePopulate(rnd *rand.Rand, back *Catalog) []Op {
	var blobs, imgs []string
	for _, c := range back.Contents {
		if !c.Man {
			blobs = append(blobs, c.ID)
		} else if c.Natural == "image" && c.As["image"].WF {
			imgs = append(imgs, c.ID)
		}
	}
	var ops []Op
	for _, r := range back.Repos {
		if rnd.Intn(10) < 3 {
			continue
		}
		b := blobs[rnd.Intn(len(blobs))]
		ops = append(ops, Op{Op: "PushBlob", R: r, C: b, DD: b, DS: len(back.byID[b].Data)})
		if len(imgs) > 0 && rnd.Intn(2) == 0 {
			m := imgs[rnd.Intn(len(imgs))]
			for _, x := range back.byID[m].As["image"].Blobs {
				ops = append(ops, Op{Op: "PushBlob", R: r, C: x, DD: x, DS: len(back.byID[x].Data)})
			}
			t := "-"
			if rnd.Intn(3) != 0 {
				t = back.Tags[rnd.Intn(len(back.Tags))]
			}
			ops = append(ops, Op{Op: "PushManifest", R: r, T: t, C: m, MT: "image"})
		}
	}
	return ops
}

func randPolicy(rnd *rand.Rand, names []string, ids []string) map[string]map[string]string {
	pol := map[string]map[string]string{}
	// a few repositories are refused wholesale, the rest entry by entry
	for _, n := range append([]string{"*"}, names...) {
		row := map[string]string{}
		mode := rnd.Intn(5)
		for _, k := range kindList {
			v := "ok"
			switch {
			case mode == 0:
				v = ids[rnd.Intn(len(ids))]
			case mode == 1 || mode == 2:
				if rnd.Intn(3) == 0 {
					v = ids[rnd.Intn(len(ids))]
				}
			}
			if n == "*" && k == "List" && rnd.Intn(4) != 0 {
				v = "ok"
			}
			row[k] = v
		}
		pol[n] = row
	}
	return pol
}

func sortedKeys(m map[string]bool) []string {
	out := make([]string, 0, len(m))
	for k := range m {
		out = append(out, k)
	}
	sort.Strings(out)
	return out
}

func filterCmd(args []string) error {
	fs := flag.NewFlagSet("filter", flag.ExitOnError)
	seed := fs.Int64("seed", 1, "seed for random scenarios")
	n := fs.Int("n", 0, "number of random scenarios")
	steps := fs.Int("steps", 30, "calls per random scenario")
	out := fs.String("out", "", "trace file")
	casesFile := fs.String("cases", "", "file with one TLC-exported case per line (over the mc catalogue)")
	kinds := fs.String("kinds", "checker,select", "wrapper kinds for random scenarios: checker, select, sub")
	prefix := fs.String("prefix", "", "prefix of the Sub view")
	reposFlag := fs.String("repos", "", "comma-separated backend repositories (cases); random scenarios draw their own")
	replay := fs.String("replay", "", "replay file: re-execute the scenarios of its reset events")
	conc := fs.Int("conc", 0, "kind sub: add the concurrent stage, that many calls per goroutine through one view")
	fs.Parse(args)

	var cases []fCase
	gen := ev{"seed": *seed, "cat": "rand", "prefix": *prefix, "repos": []string{}}
	if *replay != "" {
		// the header says how the catalogue was made; each reset line holds its case
		var hdr struct {
			Gen struct {
				Seed   int64    `json:"seed"`
				Cat    string   `json:"cat"`
				Prefix string   `json:"prefix"`
				Repos  []string `json:"repos"`
			} `json:"gen"`
		}
		first := true
		err := filterReadLines(*replay, func(line []byte) error {
			if first {
				first = false
				if err := json.Unmarshal(line, &hdr); err != nil {
					return err
				}
				return nil
			}
			var e struct {
				Op   string `json:"op"`
				Case fCase  `json:"case"`
			}
			if err := json.Unmarshal(line, &e); err != nil {
				return err
			}
			if e.Op == "reset" {
				cases = append(cases, e.Case)
			}
			return nil
		})
		if err != nil {
			return fmt.Errorf("replay: %v", err)
		}
		*seed, *prefix = hdr.Gen.Seed, hdr.Gen.Prefix
		*reposFlag = strings.Join(hdr.Gen.Repos, ",")
		if hdr.Gen.Cat == "mc" {
			*casesFile = "-"
		}
		gen = ev{"seed": hdr.Gen.Seed, "cat": hdr.Gen.Cat, "prefix": hdr.Gen.Prefix, "repos": hdr.Gen.Repos}
		*n = 0
	}
	// -prefix a,b: Sub(Sub(backend, "a"), "b"), one view under a/b
	var chain []string
	prefixSpec := *prefix
	if *prefix != "" {
		chain = strings.Split(*prefix, ",")
		*prefix = strings.Join(chain, "/")
	}
	gen["prefix"] = prefixSpec
	rnd := rand.New(rand.NewSource(*seed))
	var cat *Catalog
	backend := map[string]bool{}
	if *reposFlag != "" {
		for _, r := range strings.Split(*reposFlag, ",") {
			backend[r] = true
		}
		gen["repos"] = strings.Split(*reposFlag, ",")
	}
	if *casesFile != "" {
		cat = mcCatalog()
		gen["cat"] = "mc"
		if *casesFile != "-" {
			err := filterReadLines(*casesFile, func(line []byte) error {
				var c fCase
				if err := json.Unmarshal(line, &c); err != nil {
					return err
				}
				cases = append(cases, c)
				return nil
			})
			if err != nil {
				return fmt.Errorf("cases: %v", err)
			}
		}
	} else {
		cat = randCatalog(rnd, 4, 4, 9, 12, false)
	}
	// the names callers use, and the backend universe
	view := map[string]bool{}
	var outside []string
	isSub := *prefix != ""
	if *casesFile == "" {
		if isSub {
			for _, y := range cat.Repos {
				view[y] = true
				backend[*prefix+"/"+y] = true
			}
			first := strings.Split(*prefix, "/")[0]
			outside = uniq(append([]string{*prefix, *prefix + "ey", *prefix + "-x", first + "0", "other/" + cat.Repos[0]}, cat.Repos...))
			var really []string
			for _, o := range outside {
				backend[o] = true
				if y, ok := strings.CutPrefix(o, *prefix+"/"); ok {
					view[y] = true // under the prefix after all (a one-letter prefix, say)
				} else {
					really = append(really, o)
				}
			}
			outside = really
		} else {
			for _, r := range cat.Repos {
				backend[r] = true
			}
		}
	} else if isSub {
		for r := range backend {
			if y, ok := strings.CutPrefix(r, *prefix+"/"); ok {
				view[y] = true
			} else {
				outside = append(outside, r)
			}
		}
		sort.Strings(outside)
	}
	if isSub {
		cat.Repos = sortedKeys(view)
	} else {
		cat.Repos = sortedKeys(backend)
	}
	back0 := *cat
	back0.Repos = sortedKeys(backend)

	// seeded-random scenarios
	if *replay == "" {
		kl := strings.Split(*kinds, ",")
		for i := 0; i < *n; i++ {
			k := kl[i%len(kl)]
			c := fCase{Kind: k, Imm: rnd.Intn(3) == 0, Scope: fScope{Triples: [][]string{}}, FailAfter: -1}
			c.Pre = prePopulate(rnd, &back0)
			ops := randOps(rnd, cat, *steps, "all", false)
			if k != "sub" && rnd.Intn(2) == 0 {
				// the checking wrappers hand the caller's context on as it is
				c.Scope = randScope(rnd, back0.Repos, "x", nil)
			}
			c.FailAfter = -1
			if k != "sub" && k != "tree" && rnd.Intn(4) == 0 {
				c.FailAfter = rnd.Intn(4)
				c.FailWith = append([]string{""}, back0.Repos...)[rnd.Intn(len(back0.Repos)+1)]
			}
			if k != "tree" && rnd.Intn(4) == 0 {
				// a backend that refuses some methods
				c.Faults = map[string]string{}
				for i := 1 + rnd.Intn(3); i > 0; i-- {
					c.Faults[faultOps[rnd.Intn(len(faultOps))]] = faultCodes[rnd.Intn(len(faultCodes))]
				}
				if rnd.Intn(2) == 0 {
					c.Faults["MountBlob"] = "UNSUPPORTED"
				}
			}
			polNames := append(append([]string{}, back0.Repos...), illNames...)
			if (k == "checker" || k == "select") && rnd.Intn(3) == 0 {
				// the backend's listing as it might come: names repeated, out of order, ill-formed
				c.Scripted = true
				c.Script = []string{}
				for i := rnd.Intn(7); i > 0; i-- {
					x := polNames[rnd.Intn(len(polNames))]
					for j := 1 + rnd.Intn(3); j > 0; j-- {
						c.Script = append(c.Script, x)
					}
				}
			}
			switch k {
			case "checker":
				ids := polErrIDs[:1+rnd.Intn(len(polErrIDs))]
				c.Pol = randPolicy(rnd, polNames, ids)
			case "tree":
				c.Tree = randTree(rnd, back0.Repos)
				cur := 1 + rnd.Intn(len(c.Tree))
				for range ops {
					if rnd.Intn(10) < 3 {
						cur = 1 + rnd.Intn(len(c.Tree))
					}
					c.Nodes = append(c.Nodes, cur)
				}
			case "select":
				for _, r := range append([]string{"*"}, polNames...) {
					if rnd.Intn(2) == 0 {
						c.Allow = append(c.Allow, r)
					}
				}
			case "sub":
				if rnd.Intn(4) == 0 {
					// the backend's listing breaks off, handing over some name with the error
					c.FailAfter = rnd.Intn(5)
					c.FailWith = append([]string{"", *prefix + "/" + cat.Repos[0]}, outside...)[rnd.Intn(len(outside)+2)]
				}
				// interleave calls with hostile names, and give every call a scope of its own
				var mixed []Op
				fresh := 0
				for _, op := range ops {
					mixed = append(mixed, op)
					if rnd.Intn(4) == 0 {
						mixed = append(mixed, hostileOp(rnd, cat, *prefix, outside, &fresh))

					}
				}
				ops = mixed
				names := append(append([]string{}, cat.Repos...), outside...)
				for range ops {
					c.Scopes = append(c.Scopes, randScope(rnd, names, *prefix, outside))
				}
			}
			if k == "checker" || k == "select" {
				// calls that name something that is not a repository name
				var mixed []Op
				fresh := 1000
				for _, op := range ops {
					mixed = append(mixed, op)
					if rnd.Intn(5) == 0 {
						io := hostileOp(rnd, cat, "", nil, &fresh)
						ill := func(n string) string {
							for _, r := range cat.Repos {
								if r == n {
									return n
								}
							}
							return illNames[rnd.Intn(len(illNames))]
						}
						if io.Op != "ListRepos" {
							io.R = ill(io.R)
						}
						if io.Op == "MountBlob" {
							io.From = ill(io.From)
						}
						mixed = append(mixed, io)
					}
				}
				ops = mixed
			}
			// resumes with the empty id and with odd ids, each session name used once
			var withOdd []Op
			nOdd := 0
			for _, op := range ops {
				withOdd = append(withOdd, op)
				if rnd.Intn(10) == 0 {
					nOdd++
					u := fmt.Sprintf("%s%d", []string{"e", "e", "o"}[rnd.Intn(3)], nOdd)
					r := cat.Repos[rnd.Intn(len(cat.Repos))]
					withOdd = append(withOdd, Op{Op: "Resume", R: r, U: u, Off: []int{-1, 0, 0, 3}[rnd.Intn(4)]})
					if rnd.Intn(2) == 0 {
						withOdd = append(withOdd, Op{Op: "Write", R: r, U: u, Data: []int{7, 0}}, Op{Op: "Commit", R: r, U: u, DD: "b2"})
					}
				}
			}
			if len(c.Nodes) > 0 {
				// an inserted call goes through the wrapper of the call before it
				var nn []int
				j := 0
				for _, op := range withOdd {
					if j < len(ops) && sameOp(op, ops[j]) {
						nn = append(nn, c.Nodes[j])
						j++
					} else if len(nn) > 0 {
						nn = append(nn, nn[len(nn)-1])
					} else {
						nn = append(nn, c.Nodes[0])
					}
				}
				c.Nodes = nn
			}
			if len(c.Scopes) > 0 {
				for len(c.Scopes) < len(withOdd) {
					c.Scopes = append(c.Scopes, c.Scopes[rnd.Intn(len(c.Scopes))])
				}
			}
			c.Ops = withOdd
			cases = append(cases, c)
		}
	}
	if *conc > 0 && *replay == "" && isSub {
		cases = append(cases, fCase{Kind: "sub", FailAfter: -1, Conc: *conc, Scope: fScope{Triples: [][]string{}}})
	}
	// close the universe: a valid caller name addresses a backend repository
	if isSub {
		for _, c := range cases {
			for _, op := range c.Ops {
				for _, nm := range []string{op.R, op.From} {
					if nm != "" && ociref.IsValidRepository(*prefix+"/"+nm) {
						view[nm] = true
						backend[*prefix+"/"+nm] = true
					}
				}
			}
		}
		// the view is exactly what lies under the prefix
		for r := range backend {
			if y, ok := strings.CutPrefix(r, *prefix+"/"); ok {
				view[y] = true
			}
		}
		cat.Repos = sortedKeys(view)
	}
	for _, c := range cases {
		for _, op := range c.Ops {
			if op.U != "" {
				known := false
				for _, u := range cat.Uploads {
					known = known || u == op.U
				}
				if !known {
					cat.Uploads = append(cat.Uploads, op.U)
				}
			}
		}
	}
	back := *cat
	back.Repos = sortedKeys(backend)

	fr := &fRun{cat: cat, back: &back, prefix: *prefix, chain: chain, names: map[string]bool{"": true, "*": true, *prefix: true}, perKind: map[string]int{}}
	for _, r := range back.Repos {
		fr.name(r)
	}
	for _, r := range cat.Repos {
		fr.name(r)
	}
	for _, c := range cases {
		if c.Kind == "sub" && !isSub {
			return fmt.Errorf("a sub case needs -prefix")
		}
		if c.Scope.Triples == nil {
			c.Scope.Triples = [][]string{}
		}
		for i := range c.Scopes {
			if c.Scopes[i].Triples == nil {
				c.Scopes[i].Triples = [][]string{}
			}
		}
		fr.runCase(c, gen)
	}

	f, err := os.Create(*out)
	if err != nil {
		return err
	}
	defer f.Close()
	bw := bufio.NewWriterSize(f, 1<<20)
	defer bw.Flush()
	hdr := back.header()
	hdr["op"] = "header"
	hdr["prefix"] = *prefix
	hdr["view"] = cat.Repos
	// (a flat list of pairs, not an object: the runner renders an object as one deeply nested
	// expression, and TLC evaluates that recursively on its main thread's small stack)
	chars := [][]any{}
	for _, s := range sortedKeys(fr.names) {
		chars = append(chars, []any{s, charsOf(s)})
	}
	hdr["chars"] = chars
	hdr["gen"] = gen
	hb, err := json.Marshal(hdr)
	if err != nil {
		return err
	}
	bw.Write(hb)
	bw.WriteByte('\n')
	bw.Write(fr.buf.Bytes())
	fmt.Printf("{\"scenarios\":%d,\"events\":%d}\n", len(cases), fr.n)
	return nil
}
