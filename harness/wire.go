package main

// Command "wire" (family OciWire, property C06): every case is ONE in-process ServeHTTP call
// on ociserver.New(scripted backend, options).  The backend is an ociregistry.Funcs whose
// methods answer as the case's script says (success with close-tracking readers / writers,
// one of the 15 standard errors, an error without a code) and record every call with its
// arguments.  Logged per case: the request as sent (character codes), the script, the
// options, and the projection of what came back: status, headers, body length, the body
// parsed as a JSON error list / as a JSON listing, the backend calls, and for every reader /
// writer handed out how often it was closed, written to and committed.
// Cases come from TLC (-cases: the export of OciWireMC, direction A) and from a seeded
// generator of random and byte-mutated request lines, headers, bodies, scripts and options
// (direction B).  No judging here: OciWireTrace.tla is the oracle, including for what a
// path segment, tag, digest or upload id IS.

import (
	"bufio"
	"bytes"
	"context"
	"crypto/sha256"
	"crypto/sha512"
	"encoding/json"
	"errors"
	"flag"
	"fmt"
	"io"
	"math/rand"
	"net/http"
	"net/http/httptest"
	"net/url"
	"os"
	"strconv"
	"strings"

	"cuelabs.dev/go/oci/ociregistry"
	"cuelabs.dev/go/oci/ociregistry/ociserver"
)

func init() { commands["wire"] = wireCmd }

// ---------------------------------------------------------------- case = the input of one call

type wireCodes []int

func wireOf(s string) wireCodes {
	out := make(wireCodes, len(s))
	for i := 0; i < len(s); i++ {
		out[i] = int(s[i])
	}
	return out
}

func (c wireCodes) str() string {
	b := make([]byte, len(c))
	for i, x := range c {
		b[i] = byte(x)
	}
	return string(b)
}

type wireQV struct {
	Has bool      `json:"has"`
	V   wireCodes `json:"v"`
}

type wireQuery struct {
	Ok     bool   `json:"ok"`
	N      wireQV `json:"n"`
	Last   wireQV `json:"last"`
	Digest wireQV `json:"digest"`
	Mount  wireQV `json:"mount"`
	From   wireQV `json:"from"`
	// Raw is the raw query string that was (or, in a replay, is to be) sent.  The TLC export
	// has no raw string: it is built from the five values (UseRaw false).
	Raw    wireCodes `json:"raw"`
	UseRaw bool      `json:"useraw"`
}

type wireHeaders struct {
	Range  wireCodes `json:"range"`
	Crange wireCodes `json:"crange"`
	Ctype  wireCodes `json:"ctype"`
	Cl     int       `json:"cl"`
}

type wireBody struct {
	N     int       `json:"n"`
	Bytes wireCodes `json:"bytes"`
	Json  string    `json:"json"` // what the bytes are as JSON: invalid / nosubject / subject / other (= not classified)
	Subj  wireCodes `json:"subj"` // the subject digest when Json = subject
	Sha   wireCodes `json:"sha"`  // sha256 digest string of the bytes (computed here)
}

type wireReq struct {
	M    string      `json:"m"`
	Path wireCodes   `json:"path"`
	Q    wireQuery   `json:"q"`
	H    wireHeaders `json:"h"`
	Body wireBody    `json:"body"`
}

type wireScript struct {
	Ans   string      `json:"ans"`
	Size  int         `json:"size"`
	Mt    wireCodes   `json:"mt"`
	Rdig  wireCodes   `json:"rdig"`
	ID    wireCodes   `json:"id"`
	Chunk int         `json:"chunk"`
	Wsize int         `json:"wsize"`
	Werr  string      `json:"werr"`
	Cerr  string      `json:"cerr"`
	Merr  string      `json:"merr"`
	Items []wireCodes `json:"items"`
	Iterr string      `json:"iterr"`
	Rfail int         `json:"rfail"` // 0: a reader serves all it holds; k+1: it fails after k bytes (if it holds more)
	Rcerr string      `json:"rcerr"` // answer of a reader's Close ("" = ok)
	// the shape of every error of this script: bare (or ""), wrap (fmt %w), http = NewHTTPError(err,
	// Estatus, nil, nil), httpresp / httprespbody = NewHTTPError(err, Estatus, a real response, nil / a body)
	Eshape  string `json:"eshape"`
	Estatus int    `json:"estatus"`
}

type wireOpts struct {
	Noref    bool `json:"noref"`
	Nosingle bool `json:"nosingle"`
	Maxpage  int  `json:"maxpage"`
	Omitdig  bool `json:"omitdig"`
	Omitlink bool `json:"omitlink"`
	// Locs: Options.LocationsForDescriptor. "nil" (or ""): not set; "one" / "many": it returns
	// https://cdn.test/<digest>/1 (and .../2); "none": no location; "err": an error.
	Locs string `json:"locs"`
}

type wireWant struct {
	Kind   string `json:"kind"`
	Mode   string `json:"mode"`
	Status int    `json:"status"`
}

type wireCase struct {
	Rq   wireReq    `json:"rq"`
	Sc   wireScript `json:"sc"`
	O    wireOpts   `json:"o"`
	Want *wireWant  `json:"want,omitempty"`
}

// ---------------------------------------------------------------- the scripted, recording backend

type wireCall struct {
	Fn   string    `json:"fn"`
	Repo wireCodes `json:"repo"`
	Dig  wireCodes `json:"dig"`
	Tag  wireCodes `json:"tag"`
	From wireCodes `json:"from"`
	ID   wireCodes `json:"id"`
	A    int       `json:"a"`
	B    int       `json:"b"`
	Mt   wireCodes `json:"mt"`
	Sha  wireCodes `json:"sha"`
	Last wireCodes `json:"last"`
}

type wireObj struct {
	K       string    `json:"k"` // r = reader, w = writer
	Closes  int       `json:"closes"`
	Written int       `json:"written"`
	Commits int       `json:"commits"`
	Cdig    wireCodes `json:"cdig"`
	Rfailed bool      `json:"rfailed"` // a reader: it returned its scripted mid-stream error
}

var wireStdErrors = map[string]error{
	"BLOB_UNKNOWN": ociregistry.ErrBlobUnknown, "BLOB_UPLOAD_INVALID": ociregistry.ErrBlobUploadInvalid,
	"BLOB_UPLOAD_UNKNOWN": ociregistry.ErrBlobUploadUnknown, "DIGEST_INVALID": ociregistry.ErrDigestInvalid,
	"MANIFEST_BLOB_UNKNOWN": ociregistry.ErrManifestBlobUnknown, "MANIFEST_INVALID": ociregistry.ErrManifestInvalid,
	"MANIFEST_UNKNOWN": ociregistry.ErrManifestUnknown, "NAME_INVALID": ociregistry.ErrNameInvalid,
	"NAME_UNKNOWN": ociregistry.ErrNameUnknown, "SIZE_INVALID": ociregistry.ErrSizeInvalid,
	"UNAUTHORIZED": ociregistry.ErrUnauthorized, "DENIED": ociregistry.ErrDenied, "UNSUPPORTED": ociregistry.ErrUnsupported,
	"TOOMANYREQUESTS": ociregistry.ErrTooManyRequests, "RANGE_INVALID": ociregistry.ErrRangeInvalid,
}

var wireAnswers = []string{"ok", "uncoded", "BLOB_UNKNOWN", "BLOB_UPLOAD_INVALID", "BLOB_UPLOAD_UNKNOWN", "DIGEST_INVALID",
	"MANIFEST_BLOB_UNKNOWN", "MANIFEST_INVALID", "MANIFEST_UNKNOWN", "NAME_INVALID", "NAME_UNKNOWN", "SIZE_INVALID",
	"UNAUTHORIZED", "DENIED", "UNSUPPORTED", "TOOMANYREQUESTS", "RANGE_INVALID", "custom"}

// errOf builds the error for one scripted answer, in the script's error shape.
func (sc *wireScript) errOf(ans string) error {
	var base error
	switch {
	case ans == "ok" || ans == "":
		return nil
	case ans == "custom":
		base = ociregistry.NewError("scripted failure with a code of its own", "CUSTOM_CODE", nil)
	case wireStdErrors[ans] != nil:
		base = wireStdErrors[ans]
	default:
		base = errors.New("scripted failure without a code")
	}
	switch sc.Eshape {
	case "wrap":
		return fmt.Errorf("backend says: %w", base)
	case "http":
		return ociregistry.NewHTTPError(base, sc.Estatus, nil, nil)
	case "httpresp", "httprespbody":
		resp := &http.Response{StatusCode: sc.Estatus, Status: fmt.Sprintf("%d %s", sc.Estatus, http.StatusText(sc.Estatus)),
			Proto: "HTTP/1.1", ProtoMajor: 1, ProtoMinor: 1, Header: http.Header{"Content-Type": {"application/json"}}}
		var body []byte
		if sc.Eshape == "httprespbody" {
			body = []byte(`{"errors":[{"code":"UPSTREAM","message":"what the upstream registry said"}]}`)
		}
		return ociregistry.NewHTTPError(base, sc.Estatus, resp, body)
	}
	return base
}

type wireBackend struct {
	sc    *wireScript
	calls []wireCall
	objs  []*wireObj
}

// wireClamp keeps a logged number within +-10^9 (TLC integers are 32 bit; the specification
// evaluates numerals of at most 9 digits and treats everything else as "beyond").
func wireClamp(n int64) int {
	const lim = 1000000000
	if n > lim {
		return lim
	}
	if n < -lim {
		return -lim
	}
	return int(n)
}

func (b *wireBackend) rec(c wireCall) {
	c.A, c.B = wireClamp(int64(c.A)), wireClamp(int64(c.B))
	for _, p := range []*wireCodes{&c.Repo, &c.Dig, &c.Tag, &c.From, &c.ID, &c.Mt, &c.Sha, &c.Last} {
		if *p == nil {
			*p = wireCodes{}
		}
	}
	b.calls = append(b.calls, c)
}

func (b *wireBackend) desc(size int) ociregistry.Descriptor {
	return ociregistry.Descriptor{MediaType: b.sc.Mt.str(), Digest: ociregistry.Digest(b.sc.Rdig.str()), Size: int64(size)}
}

// the stored content: Size bytes of a fixed pattern
func (b *wireBackend) content() []byte {
	out := make([]byte, b.sc.Size)
	for i := range out {
		out[i] = "0123456789abcdefghijklmnopqrstuvwxyz"[i%36]
	}
	return out
}

type wireReader struct {
	obj    *wireObj
	rd     *bytes.Reader
	desc   ociregistry.Descriptor
	failAt int // -1: never; k: Read fails once k bytes have been served (only set when more than k are held)
	served int
	cerr   error
}

func (r *wireReader) Read(p []byte) (int, error) {
	if r.failAt >= 0 {
		if r.served >= r.failAt {
			r.obj.Rfailed = true
			return 0, errors.New("scripted read failure in mid-stream")
		}
		if len(p) > r.failAt-r.served {
			p = p[:r.failAt-r.served]
		}
	}
	n, err := r.rd.Read(p)
	r.served += n
	return n, err
}
func (r *wireReader) Close() error                       { r.obj.Closes++; return r.cerr }
func (r *wireReader) Descriptor() ociregistry.Descriptor { return r.desc }

func (b *wireBackend) reader(data []byte) ociregistry.BlobReader {
	o := &wireObj{K: "r", Cdig: wireCodes{}}
	b.objs = append(b.objs, o)
	failAt := -1
	if b.sc.Rfail > 0 && b.sc.Rfail-1 < len(data) {
		failAt = b.sc.Rfail - 1
	}
	return &wireReader{obj: o, rd: bytes.NewReader(data), desc: b.desc(b.sc.Size), failAt: failAt, cerr: b.sc.errOf(b.sc.Rcerr)}
}

type wireWriter struct {
	b   *wireBackend
	obj *wireObj
}

func (w *wireWriter) Write(p []byte) (int, error) {
	if err := w.b.sc.errOf(w.b.sc.Werr); err != nil {
		return 0, err
	}
	w.obj.Written += len(p)
	return len(p), nil
}
func (w *wireWriter) Close() error   { w.obj.Closes++; return w.b.sc.errOf(w.b.sc.Cerr) }
func (w *wireWriter) Size() int64    { return int64(w.b.sc.Wsize + w.obj.Written) }
func (w *wireWriter) ChunkSize() int { return w.b.sc.Chunk }
func (w *wireWriter) ID() string     { return w.b.sc.ID.str() }
func (w *wireWriter) Cancel() error  { return nil }
func (w *wireWriter) Commit(d ociregistry.Digest) (ociregistry.Descriptor, error) {
	w.obj.Commits++
	w.obj.Cdig = wireOf(string(d))
	if err := w.b.sc.errOf(w.b.sc.Merr); err != nil {
		return ociregistry.Descriptor{}, err
	}
	return w.b.desc(w.b.sc.Wsize + w.obj.Written), nil
}

func (b *wireBackend) writer() ociregistry.BlobWriter {
	o := &wireObj{K: "w", Cdig: wireCodes{}}
	b.objs = append(b.objs, o)
	return &wireWriter{b: b, obj: o}
}

func wireSeq[T any](items []T, err error) ociregistry.Seq[T] {
	return func(yield func(T, error) bool) {
		for _, x := range items {
			if !yield(x, nil) {
				return
			}
		}
		if err != nil {
			var zero T
			yield(zero, err)
		}
	}
}

func (b *wireBackend) itemStrings() []string {
	out := make([]string, len(b.sc.Items))
	for i, x := range b.sc.Items {
		out[i] = x.str()
	}
	return out
}

func (b *wireBackend) funcs() *ociregistry.Funcs {
	sc := b.sc
	return &ociregistry.Funcs{
		NewError: func(ctx context.Context, methodName, repo string) error {
			b.rec(wireCall{Fn: "unset:" + methodName, Repo: wireOf(repo)})
			return ociregistry.ErrUnsupported
		},
		GetBlob_: func(ctx context.Context, repo string, d ociregistry.Digest) (ociregistry.BlobReader, error) {
			b.rec(wireCall{Fn: "GetBlob", Repo: wireOf(repo), Dig: wireOf(string(d))})
			if err := sc.errOf(sc.Ans); err != nil {
				return nil, err
			}
			return b.reader(b.content()), nil
		},
		GetBlobRange_: func(ctx context.Context, repo string, d ociregistry.Digest, o0, o1 int64) (ociregistry.BlobReader, error) {
			b.rec(wireCall{Fn: "GetBlobRange", Repo: wireOf(repo), Dig: wireOf(string(d)), A: int(o0), B: int(o1)})
			if err := sc.errOf(sc.Ans); err != nil {
				return nil, err
			}
			data := b.content()
			n := int64(len(data))
			if o1 < 0 || o1 > n {
				o1 = n
			}
			if o0 > n {
				o0 = n
			}
			if o0 < 0 {
				o0 = 0
			}
			if o1 < o0 {
				o1 = o0
			}
			return b.reader(data[o0:o1]), nil
		},
		GetManifest_: func(ctx context.Context, repo string, d ociregistry.Digest) (ociregistry.BlobReader, error) {
			b.rec(wireCall{Fn: "GetManifest", Repo: wireOf(repo), Dig: wireOf(string(d))})
			if err := sc.errOf(sc.Ans); err != nil {
				return nil, err
			}
			return b.reader(b.content()), nil
		},
		GetTag_: func(ctx context.Context, repo string, tag string) (ociregistry.BlobReader, error) {
			b.rec(wireCall{Fn: "GetTag", Repo: wireOf(repo), Tag: wireOf(tag)})
			if err := sc.errOf(sc.Ans); err != nil {
				return nil, err
			}
			return b.reader(b.content()), nil
		},
		ResolveBlob_: func(ctx context.Context, repo string, d ociregistry.Digest) (ociregistry.Descriptor, error) {
			b.rec(wireCall{Fn: "ResolveBlob", Repo: wireOf(repo), Dig: wireOf(string(d))})
			return b.desc(sc.Size), sc.errOf(sc.Ans)
		},
		ResolveManifest_: func(ctx context.Context, repo string, d ociregistry.Digest) (ociregistry.Descriptor, error) {
			b.rec(wireCall{Fn: "ResolveManifest", Repo: wireOf(repo), Dig: wireOf(string(d))})
			return b.desc(sc.Size), sc.errOf(sc.Ans)
		},
		ResolveTag_: func(ctx context.Context, repo string, tag string) (ociregistry.Descriptor, error) {
			b.rec(wireCall{Fn: "ResolveTag", Repo: wireOf(repo), Tag: wireOf(tag)})
			return b.desc(sc.Size), sc.errOf(sc.Ans)
		},
		PushBlob_: func(ctx context.Context, repo string, desc ociregistry.Descriptor, r io.Reader) (ociregistry.Descriptor, error) {
			n, _ := io.Copy(io.Discard, r)
			b.rec(wireCall{Fn: "PushBlob", Repo: wireOf(repo), Dig: wireOf(string(desc.Digest)), A: int(desc.Size), B: int(n), Mt: wireOf(desc.MediaType)})
			return b.desc(int(n)), sc.errOf(sc.Ans)
		},
		PushBlobChunked_: func(ctx context.Context, repo string, chunkSize int) (ociregistry.BlobWriter, error) {
			b.rec(wireCall{Fn: "PushBlobChunked", Repo: wireOf(repo), A: chunkSize})
			if err := sc.errOf(sc.Ans); err != nil {
				return nil, err
			}
			return b.writer(), nil
		},
		PushBlobChunkedResume_: func(ctx context.Context, repo, id string, offset int64, chunkSize int) (ociregistry.BlobWriter, error) {
			b.rec(wireCall{Fn: "PushBlobChunkedResume", Repo: wireOf(repo), ID: wireOf(id), A: int(offset), B: chunkSize})
			if err := sc.errOf(sc.Ans); err != nil {
				return nil, err
			}
			return b.writer(), nil
		},
		MountBlob_: func(ctx context.Context, fromRepo, toRepo string, d ociregistry.Digest) (ociregistry.Descriptor, error) {
			b.rec(wireCall{Fn: "MountBlob", Repo: wireOf(toRepo), From: wireOf(fromRepo), Dig: wireOf(string(d))})
			return b.desc(sc.Size), sc.errOf(sc.Ans)
		},
		PushManifest_: func(ctx context.Context, repo string, tag string, contents []byte, mediaType string) (ociregistry.Descriptor, error) {
			b.rec(wireCall{Fn: "PushManifest", Repo: wireOf(repo), Tag: wireOf(tag), B: len(contents), Sha: wireOf(wireSha(contents)), Mt: wireOf(mediaType)})
			return b.desc(len(contents)), sc.errOf(sc.Ans)
		},
		DeleteBlob_: func(ctx context.Context, repo string, d ociregistry.Digest) error {
			b.rec(wireCall{Fn: "DeleteBlob", Repo: wireOf(repo), Dig: wireOf(string(d))})
			return sc.errOf(sc.Ans)
		},
		DeleteManifest_: func(ctx context.Context, repo string, d ociregistry.Digest) error {
			b.rec(wireCall{Fn: "DeleteManifest", Repo: wireOf(repo), Dig: wireOf(string(d))})
			return sc.errOf(sc.Ans)
		},
		DeleteTag_: func(ctx context.Context, repo string, name string) error {
			b.rec(wireCall{Fn: "DeleteTag", Repo: wireOf(repo), Tag: wireOf(name)})
			return sc.errOf(sc.Ans)
		},
		Repositories_: func(ctx context.Context, startAfter string) ociregistry.Seq[string] {
			b.rec(wireCall{Fn: "Repositories", Last: wireOf(startAfter)})
			return wireSeq(b.itemStrings(), sc.errOf(sc.Iterr))
		},
		Tags_: func(ctx context.Context, repo string, startAfter string) ociregistry.Seq[string] {
			b.rec(wireCall{Fn: "Tags", Repo: wireOf(repo), Last: wireOf(startAfter)})
			return wireSeq(b.itemStrings(), sc.errOf(sc.Iterr))
		},
		Referrers_: func(ctx context.Context, repo string, d ociregistry.Digest, artifactType string) ociregistry.Seq[ociregistry.Descriptor] {
			b.rec(wireCall{Fn: "Referrers", Repo: wireOf(repo), Dig: wireOf(string(d)), Mt: wireOf(artifactType)})
			ds := make([]ociregistry.Descriptor, len(sc.Items))
			for i, x := range sc.Items {
				ds[i] = ociregistry.Descriptor{MediaType: "application/vnd.oci.image.manifest.v1+json", Digest: ociregistry.Digest(x.str()), Size: 1}
			}
			return wireSeq(ds, sc.errOf(sc.Iterr))
		},
	}
}

// wirePrintable keeps a label readable (and harmless for every JSON reader): plain ASCII only.
func wirePrintable(s string) string {
	b := []byte(s)
	for i, c := range b {
		if c < 32 || c > 126 || c == '"' || c == '\\' {
			b[i] = '?'
		}
	}
	if len(b) > 160 {
		b = b[:160]
	}
	return string(b)
}

func wireSha(b []byte) string { return fmt.Sprintf("sha256:%x", sha256.Sum256(b)) }

// ---------------------------------------------------------------- one call

// wireRW counts the status lines the handler writes (the recorder keeps the first only).
type wireRW struct {
	*httptest.ResponseRecorder
	nwh int
}

func (w *wireRW) WriteHeader(code int) {
	w.nwh++
	w.ResponseRecorder.WriteHeader(code)
}

type wireEv = map[string]any

// the two kinds of event (field order = order in the trace line)
type wireReqEv struct {
	Op   string     `json:"op"`
	Msg  string     `json:"msg"` // label only: status, method, path
	Want *wireWant  `json:"want,omitempty"`
	Out  wireEv     `json:"out"`
	Rq   wireReq    `json:"rq"`
	Sc   wireScript `json:"sc"`
	O    wireOpts   `json:"o"`
}

type wirePanicEv struct {
	Op  string   `json:"op"`
	Msg string   `json:"msg"`
	In  wireCase `json:"in"`
}

func wireRawQuery(q *wireQuery) string {
	if q.UseRaw {
		return q.Raw.str()
	}
	if !q.Ok {
		return "%zz"
	}
	var parts []string
	for _, kv := range []struct {
		k string
		v wireQV
	}{{"n", q.N}, {"last", q.Last}, {"digest", q.Digest}, {"mount", q.Mount}, {"from", q.From}} {
		if kv.v.Has {
			parts = append(parts, kv.k+"="+url.QueryEscape(kv.v.V.str()))
		}
	}
	return strings.Join(parts, "&")
}

// wireRun executes one case on the real server and returns the event to log.  The query
// values logged are what net/url decodes from the raw query actually sent.
func wireRun(c wireCase) (ev any) {
	raw := wireRawQuery(&c.Rq.Q)
	vals, qerr := url.ParseQuery(raw)
	qv := func(k string) wireQV {
		_, has := vals[k]
		return wireQV{Has: has, V: wireOf(vals.Get(k))}
	}
	c.Rq.Q = wireQuery{Ok: qerr == nil, N: qv("n"), Last: qv("last"), Digest: qv("digest"), Mount: qv("mount"), From: qv("from"),
		Raw: wireOf(raw), UseRaw: true}
	body := []byte(c.Rq.Body.Bytes.str())
	c.Rq.Body.N = len(body)
	c.Rq.Body.Sha = wireOf(wireSha(body))
	if c.Rq.Body.Bytes == nil {
		c.Rq.Body.Bytes = wireCodes{}
	}
	if c.Rq.Body.Subj == nil {
		c.Rq.Body.Subj = wireCodes{}
	}
	for _, p := range []*wireCodes{&c.Rq.Path, &c.Rq.H.Range, &c.Rq.H.Crange, &c.Rq.H.Ctype, &c.Sc.Mt, &c.Sc.Rdig, &c.Sc.ID} {
		if *p == nil {
			*p = wireCodes{}
		}
	}
	if c.Sc.Items == nil {
		c.Sc.Items = []wireCodes{}
	}
	if c.Sc.Rcerr == "" {
		c.Sc.Rcerr = "ok"
	}
	if c.Sc.Eshape == "" {
		c.Sc.Eshape = "bare"
	}
	if c.O.Locs == "" {
		c.O.Locs = "nil"
	}
	defer func() {
		if r := recover(); r != nil {
			ev = wirePanicEv{Op: "panic", Msg: wirePrintable(fmt.Sprintf("%v [%s %s]", r, c.Rq.M, c.Rq.Path.str())), In: c}
		}
	}()

	backend := &wireBackend{sc: &c.Sc}
	var lfd func(isManifest bool, desc ociregistry.Descriptor) ([]string, error)
	if c.O.Locs != "nil" {
		lfd = func(isManifest bool, desc ociregistry.Descriptor) ([]string, error) {
			base := "https://cdn.test/" + string(desc.Digest) + "/"
			switch c.O.Locs {
			case "one":
				return []string{base + "1"}, nil
			case "many":
				return []string{base + "1", base + "2"}, nil
			case "none":
				return []string{}, nil
			}
			return nil, errors.New("scripted failure of LocationsForDescriptor")
		}
	}
	srv := ociserver.New(backend.funcs(), &ociserver.Options{
		LocationsForDescriptor:       lfd,
		DisableReferrersAPI:          c.O.Noref,
		DisableSinglePostUpload:      c.O.Nosingle,
		MaxListPageSize:              c.O.Maxpage,
		OmitDigestFromTagGetResponse: c.O.Omitdig,
		OmitLinkHeaderFromResponses:  c.O.Omitlink,
		DebugID:                      "wire",
	})
	hdr := http.Header{}
	if len(c.Rq.H.Range) > 0 {
		hdr.Set("Range", c.Rq.H.Range.str())
	}
	if len(c.Rq.H.Crange) > 0 {
		hdr.Set("Content-Range", c.Rq.H.Crange.str())
	}
	if len(c.Rq.H.Ctype) > 0 {
		hdr.Set("Content-Type", c.Rq.H.Ctype.str())
	}
	req := (&http.Request{
		Method:        c.Rq.M,
		URL:           &url.URL{Path: c.Rq.Path.str(), RawQuery: raw},
		Proto:         "HTTP/1.1",
		ProtoMajor:    1,
		ProtoMinor:    1,
		Header:        hdr,
		Body:          io.NopCloser(bytes.NewReader(body)),
		ContentLength: int64(c.Rq.H.Cl),
		Host:          "registry.test",
		RemoteAddr:    "192.0.2.1:1234",
		RequestURI:    "",
	}).WithContext(context.Background())
	rec := httptest.NewRecorder()
	rw := &wireRW{ResponseRecorder: rec}
	srv.ServeHTTP(rw, req)

	res := rec.Result()
	out := wireEv{"status": rec.Code, "nbody": rec.Body.Len(), "nwh": rw.nwh}
	hs := wireEv{}
	for k, name := range map[string]string{"loc": "Location", "dcd": "Docker-Content-Digest", "clen": "Content-Length", "range": "Range",
		"crange": "Content-Range", "chunkmin": "OCI-Chunk-Min-Length", "link": "Link", "ctype": "Content-Type", "subject": "OCI-Subject"} {
		v := res.Header.Values(name)
		first := ""
		if len(v) > 0 {
			first = v[0]
		}
		hs[k] = wireQV{Has: len(v) > 0, V: wireOf(first)}
	}
	out["hdr"] = hs
	// the body as a JSON OCI error list (only asked of a non-2xx response)
	errv := wireEv{"json": false, "code": ""}
	if rec.Code < 200 || rec.Code > 299 {
		var we struct {
			Errors []struct {
				Code    *string `json:"code"`
				Message string  `json:"message"`
			} `json:"errors"`
		}
		if json.Unmarshal(rec.Body.Bytes(), &we) == nil && len(we.Errors) > 0 {
			ok := true
			for _, e := range we.Errors {
				if e.Code == nil || *e.Code == "" {
					ok = false
				}
			}
			if ok {
				errv = wireEv{"json": true, "code": *we.Errors[0].Code}
			}
		}
	}
	out["err"] = errv
	// the body as a JSON listing (tags / repositories / referrers index)
	list := wireEv{"ok": false, "name": wireCodes{}, "items": []wireCodes{}}
	if rec.Code >= 200 && rec.Code <= 299 {
		var l struct {
			Name         string   `json:"name"`
			Tags         []string `json:"tags"`
			Repositories []string `json:"repositories"`
			Manifests    []struct {
				Digest string `json:"digest"`
			} `json:"manifests"`
		}
		if json.Unmarshal(rec.Body.Bytes(), &l) == nil {
			items := []wireCodes{}
			for _, x := range l.Tags {
				items = append(items, wireOf(x))
			}
			for _, x := range l.Repositories {
				items = append(items, wireOf(x))
			}
			for _, x := range l.Manifests {
				items = append(items, wireOf(x.Digest))
			}
			list = wireEv{"ok": true, "name": wireOf(l.Name), "items": items}
		}
	}
	out["list"] = list
	// the Link header taken apart: <path?query>;rel="next"
	linkp := wireEv{"ok": false, "path": wireCodes{}, "last": wireCodes{}, "n": wireCodes{}}
	if lv := res.Header.Get("Link"); lv != "" {
		if rest, ok := strings.CutPrefix(lv, "<"); ok {
			if target, ok := strings.CutSuffix(rest, `>;rel="next"`); ok {
				if u, err := url.Parse(target); err == nil {
					linkp = wireEv{"ok": true, "path": wireOf(u.Path), "last": wireOf(u.Query().Get("last")), "n": wireOf(u.Query().Get("n"))}
				}
			}
		}
	}
	out["linkp"] = linkp
	// the Content-Range header taken apart: bytes start-end/total (numbers clamped)
	crp := wireEv{"ok": false, "start": 0, "end": 0, "total": 0}
	if cv := res.Header.Get("Content-Range"); cv != "" {
		if rest, ok := strings.CutPrefix(cv, "bytes "); ok {
			if se, total, ok := strings.Cut(rest, "/"); ok {
				// the end may be negative ("0--1/0" is how an empty blob is described)
				if i := strings.Index(se[min(1, len(se)):], "-"); i >= 0 {
					s0, e0 := se[:i+1], se[i+2:]
					a, err1 := strconv.ParseInt(s0, 10, 64)
					b, err2 := strconv.ParseInt(e0, 10, 64)
					t, err3 := strconv.ParseInt(total, 10, 64)
					if err1 == nil && err2 == nil && err3 == nil {
						crp = wireEv{"ok": true, "start": wireClamp(a), "end": wireClamp(b), "total": wireClamp(t)}
					}
				}
			}
		}
	}
	out["crp"] = crp
	calls := backend.calls
	if calls == nil {
		calls = []wireCall{}
	}
	out["calls"] = calls
	objs := []wireObj{}
	for _, o := range backend.objs {
		objs = append(objs, *o)
	}
	out["objs"] = objs
	return wireReqEv{Op: "req", Msg: wirePrintable(fmt.Sprintf("%d %s %s", rec.Code, c.Rq.M, c.Rq.Path.str())), Want: c.Want, Out: out, Rq: c.Rq, Sc: c.Sc, O: c.O}
}

// ---------------------------------------------------------------- command

func wireCmd(args []string) error {
	fs := flag.NewFlagSet("wire", flag.ExitOnError)
	seed := fs.Int64("seed", 1, "seed for the random cases")
	n := fs.Int("n", 0, "number of random cases")
	cases := fs.String("cases", "", "file with one TLC-exported case per line")
	replay := fs.String("replay", "", "replay file: re-execute the inputs of its events")
	out := fs.String("out", "", "trace file")
	fs.Parse(args)
	f, err := os.Create(*out)
	if err != nil {
		return err
	}
	defer f.Close()
	bw := bufio.NewWriterSize(f, 1<<20)
	defer bw.Flush()
	enc := json.NewEncoder(bw)
	enc.SetEscapeHTML(false)
	enc.Encode(wireEv{"op": "header", "family": "OciWire", "seed": *seed})
	total, panics := 0, 0
	emit := func(src string, c wireCase) {
		enc.Encode(wireEv{"op": "reset", "src": src})
		ev := wireRun(c)
		if _, isPanic := ev.(wirePanicEv); isPanic {
			panics++
		}
		enc.Encode(ev)
		total++
	}
	scanFile := func(path string, each func(line []byte) error) error {
		rf, err := os.Open(path)
		if err != nil {
			return err
		}
		defer rf.Close()
		sc := bufio.NewScanner(rf)
		sc.Buffer(make([]byte, 1<<20), 1<<26)
		for sc.Scan() {
			if len(bytes.TrimSpace(sc.Bytes())) == 0 {
				continue
			}
			if err := each(sc.Bytes()); err != nil {
				return err
			}
		}
		return sc.Err()
	}
	if *replay != "" {
		first := true
		if err := scanFile(*replay, func(line []byte) error {
			if first {
				first = false
				return nil
			}
			var e struct {
				Op string    `json:"op"`
				In *wireCase `json:"in"`
				wireCase
			}
			if err := json.Unmarshal(line, &e); err != nil {
				return fmt.Errorf("replay: %v", err)
			}
			switch e.Op {
			case "req":
				emit("replay", e.wireCase)
			case "panic":
				if e.In != nil {
					emit("replay", *e.In)
				}
			}
			return nil
		}); err != nil {
			return err
		}
	}
	if *cases != "" {
		if err := scanFile(*cases, func(line []byte) error {
			var c wireCase
			if err := json.Unmarshal(line, &c); err != nil {
				return fmt.Errorf("case: %v", err)
			}
			emit("tlc", c)
			return nil
		}); err != nil {
			return err
		}
	}
	rnd := rand.New(rand.NewSource(*seed))
	for i := 0; i < *n; i++ {
		emit("rand", wireRandom(rnd))
	}
	bw.Flush()
	fmt.Printf("{\"cases\":%d,\"panics\":%d}\n", total, panics)
	return nil
}

// ---------------------------------------------------------------- random cases (direction B)
// Request lines assembled from valid and invalid parts, byte mutations of well-formed ones
// (including NUL, non-UTF-8 bytes, extra slashes, emptied segments), unstructured ones;
// random queries (structured and raw), header values, bodies, scripts and options.

const wireLow = "abcdefghijklmnopqrstuvwxyz0123456789"
const wireHex = "0123456789abcdef"

func wirePick(r *rand.Rand, alphabet string, n int) string {
	b := make([]byte, n)
	for i := range b {
		b[i] = alphabet[r.Intn(len(alphabet))]
	}
	return string(b)
}

func wireOne(r *rand.Rand, xs ...string) string { return xs[r.Intn(len(xs))] }

func wireDigest(r *rand.Rand) string {
	switch r.Intn(10) {
	case 0:
		return "sha512:" + wirePick(r, wireHex, 128)
	case 1:
		return "sha384:" + wirePick(r, wireHex, 96)
	case 2:
		return wireOne(r, "sha256:"+wirePick(r, wireHex, 63), "sha256:"+wirePick(r, wireHex, 65), "sha256:"+strings.ToUpper(wirePick(r, wireHex, 64)),
			"sha1:"+wirePick(r, wireHex, 40), "sha256:zz", "sha256", ":"+wirePick(r, wireHex, 64), "md5:"+wirePick(r, wireHex, 32), "sha256:"+wirePick(r, wireHex, 64)+"/")
	default:
		return "sha256:" + wirePick(r, wireHex, 64)
	}
}

func wireComponent(r *rand.Rand) string {
	switch r.Intn(12) {
	case 0:
		return wireOne(r, "Foo", "", "-x", "x-", "a..b", "a___b", "_x", ".", "..", "a b", "a%2fb", "é", "a\x00b", "\xff")
	case 1:
		return wireOne(r, "blobs", "manifests", "uploads", "tags", "list", "referrers", "_catalog", "v2")
	case 2:
		return wirePick(r, wireLow, 1+r.Intn(3)) + wireOne(r, ".", "_", "__", "-", "--") + wirePick(r, wireLow, 1+r.Intn(3))
	default:
		return wirePick(r, wireLow, 1+r.Intn(6))
	}
}

func wireRepo(r *rand.Rand) string {
	n := 1 + r.Intn(3)
	if r.Intn(30) == 0 {
		n = 0
	}
	parts := make([]string, n)
	for i := range parts {
		parts[i] = wireComponent(r)
	}
	s := strings.Join(parts, "/")
	if r.Intn(40) == 0 {
		s = strings.Repeat("a", 250+r.Intn(10)) + "/" + s
	}
	return s
}

func wireTag(r *rand.Rand) string {
	switch r.Intn(8) {
	case 0:
		return wireOne(r, "", "-x", ".x", "a b", "a/b", "a:b", "a@b", "é", strings.Repeat("a", 128), strings.Repeat("a", 129), "x\n")
	case 1:
		return wireOne(r, "latest", "Foo", "_x", "v1.0", "1", "a-b.c_d", "list", "blobs")
	default:
		return wirePick(r, wireLow+"ABCXYZ_", 1) + wirePick(r, wireLow+"ABCXYZ_.-", r.Intn(8))
	}
}

func wireUploadID(r *rand.Rand) string {
	switch r.Intn(6) {
	case 0:
		return wireOne(r, "", "%%%", "a", "abcde", "aWQ=", "a+b/", "aW\nQ", "/w", "_w", "gA", "4pyT", "7aCA", "wIA", "9JCAgA")
	default:
		n := r.Intn(12)
		return wirePick(r, wireLow+"ABCDEFGHIJKLMNOPQRSTUVWXYZ-_", n)
	}
}

func wireWellFormedPath(r *rand.Rand) string {
	repo := wireRepo(r)
	switch r.Intn(12) {
	case 0:
		return wireOne(r, "/v2", "/v2/", "/v2/_catalog", "/", "", "/v1/", "v2/", "/v2//", "/v2/_catalog/")
	case 1, 2:
		return "/v2/" + repo + "/blobs/" + wireDigest(r)
	case 3:
		return "/v2/" + repo + wireOne(r, "/blobs/uploads/", "/blobs/uploads")
	case 4, 5:
		return "/v2/" + repo + "/blobs/uploads/" + wireUploadID(r)
	case 6, 7:
		return "/v2/" + repo + "/manifests/" + wireOne(r, wireTag(r), wireDigest(r))
	case 8:
		return "/v2/" + repo + wireOne(r, "/tags/list", "/tags/list", "/tags/list/", "/tags/", "/tags/lists")
	case 9:
		return "/v2/" + repo + "/referrers/" + wireDigest(r)
	case 10:
		return "/v2/" + repo + "/" + wireComponent(r) + "/" + wireOne(r, wireTag(r), wireDigest(r))
	default:
		n := r.Intn(7)
		parts := make([]string, n)
		for i := range parts {
			parts[i] = wireOne(r, wireComponent(r), wireDigest(r), wireTag(r), wireUploadID(r))
		}
		return "/" + strings.Join(parts, "/")
	}
}

func wireMutate(r *rand.Rand, s string) string {
	b := []byte(s)
	for k := 1 + r.Intn(2); k > 0; k-- {
		odd := []byte{0, '/', '/', '%', '?', '#', ' ', '\n', '\r', 0x7f, 0x80, 0xff, ':', '@', '.', '-', '_', 'A', 'z', '0'}
		c := odd[r.Intn(len(odd))]
		switch {
		case len(b) == 0 || r.Intn(3) == 0:
			i := r.Intn(len(b) + 1)
			b = append(b[:i], append([]byte{c}, b[i:]...)...)
		case r.Intn(2) == 0:
			b[r.Intn(len(b))] = c
		default:
			i := r.Intn(len(b))
			b = append(b[:i], b[i+1:]...)
		}
	}
	return string(b)
}

// numerals at the integer boundaries: 2^31-1, 2^31, 2^32, 2^63-1, 2^63-2, 2^63, 2^64, 20 digits
func wireBoundary(r *rand.Rand) string {
	return wireOne(r, "2147483647", "2147483648", "4294967296", "9223372036854775807", "9223372036854775806", "9223372036854775808",
		"18446744073709551615", "18446744073709551616", "99999999999999999999", "999999999", "1000000000")
}

func wireNumber(r *rand.Rand) string {
	switch r.Intn(10) {
	case 1:
		return wireOne(r, wireBoundary(r), "-"+wireBoundary(r))
	case 0:
		return wireOne(r, "", "x", "-1", "+2", "1e3", "0x10", " 1", "1 ", "12345678901", "99999999999999999999", "-", "+", "007", "1_0")
	default:
		return strconv.Itoa(r.Intn(6))
	}
}

func wireRawQueryRandom(r *rand.Rand) string {
	switch r.Intn(8) {
	case 0:
		return wireOne(r, "%zz", "a;b", "n=%", "=", "&&", "n", "n=1&n=2", "last=%ff", "digest=sha256%3A", "%", "n=1;last=a")
	default:
		var parts []string
		keys := []string{"n", "last", "digest", "mount", "from", "artifactType", "x"}
		for _, k := range keys {
			if r.Intn(3) != 0 {
				continue
			}
			var v string
			switch k {
			case "n":
				v = wireNumber(r)
			case "last":
				v = wireOne(r, "", "a", wireTag(r), wireRepo(r))
			case "digest", "mount":
				v = wireOne(r, "", wireDigest(r), wireDigest(r))
			case "from":
				v = wireOne(r, "", wireRepo(r), wireRepo(r))
			default:
				v = wirePick(r, wireLow, r.Intn(4))
			}
			if r.Intn(12) == 0 {
				v = wireMutate(r, v)
			}
			parts = append(parts, k+"="+url.QueryEscape(v))
		}
		r.Shuffle(len(parts), func(i, j int) { parts[i], parts[j] = parts[j], parts[i] })
		return strings.Join(parts, "&")
	}
}

// bodies whose JSON class is known (the same table as OciWireMC's Bodies); any other body is "other"
var wireBodies = []struct {
	data, class, subj string
}{
	{"", "invalid", ""},
	{`{"schemaVersion":2}`, "nosubject", ""},
	{`{"schemaVersion":2,"subject":{"mediaType":"application/vnd.oci.image.manifest.v1+json","digest":"sha256:e3b0c44298fc1c149afbf4c8996fb92427ae41e4649b934ca495991b7852b855","size":0}}`, "subject",
		"sha256:e3b0c44298fc1c149afbf4c8996fb92427ae41e4649b934ca495991b7852b855"},
	{`{"schemaVersion":`, "invalid", ""},
	{"xyz", "invalid", ""},
	{"x", "invalid", ""},
}

func wireRandom(r *rand.Rand) wireCase {
	var c wireCase
	// body first: a manifest PUT by digest needs the digest of the body in the path
	if r.Intn(5) == 0 {
		n := r.Intn(40)
		b := make([]byte, n)
		r.Read(b)
		if r.Intn(2) == 0 {
			b = []byte(wireMutate(r, wireBodies[1+r.Intn(2)].data))
		}
		c.Rq.Body = wireBody{Bytes: wireOf(string(b)), Json: "other", Subj: wireCodes{}}
	} else {
		wb := wireBodies[r.Intn(len(wireBodies))]
		c.Rq.Body = wireBody{Bytes: wireOf(wb.data), Json: wb.class, Subj: wireOf(wb.subj)}
	}
	bodySha := wireSha([]byte(c.Rq.Body.Bytes.str()))
	// the digests of the body under the other registered algorithms (a manifest may be addressed by them)
	bodyOther := wireOne(r, fmt.Sprintf("sha512:%x", sha512.Sum512([]byte(c.Rq.Body.Bytes.str()))), fmt.Sprintf("sha384:%x", sha512.Sum384([]byte(c.Rq.Body.Bytes.str()))))
	// a well-formed request of a random kind ...
	validRepo := func() string {
		n := 1 + r.Intn(3)
		parts := make([]string, n)
		for i := range parts {
			switch r.Intn(8) {
			case 0:
				parts[i] = wireOne(r, "blobs", "manifests", "uploads", "tags", "list", "referrers", "v2")
			case 1:
				parts[i] = wirePick(r, wireLow, 1+r.Intn(3)) + wireOne(r, ".", "_", "__", "-", "--") + wirePick(r, wireLow, 1+r.Intn(3))
			default:
				parts[i] = wirePick(r, wireLow, 1+r.Intn(6))
			}
		}
		return strings.Join(parts, "/")
	}
	validDigest := func() string {
		return wireOne(r, "sha256:"+wirePick(r, wireHex, 64), "sha256:"+wirePick(r, wireHex, 64), "sha256:"+wirePick(r, wireHex, 64), "sha512:"+wirePick(r, wireHex, 128), "sha384:"+wirePick(r, wireHex, 96))
	}
	validTag := func() string {
		return wirePick(r, wireLow+"ABCXYZ_", 1) + wirePick(r, wireLow+"ABCXYZ_.-", r.Intn(8))
	}
	validID := func() string {
		return wireOne(r, "aWQ", "YS9iP2M9ZCBlJQ", "w6nkuJY", "", "aW\nQ", "dXBsb2FkLTE")
	}
	repo := validRepo()
	var path, rawq string
	listq := func() string {
		var parts []string
		if r.Intn(2) == 0 {
			parts = append(parts, "n="+url.QueryEscape(wireNumber(r)))
		}
		if r.Intn(3) == 0 {
			parts = append(parts, "last="+url.QueryEscape(wireOne(r, "a", "b", "foo/bar", "x y", "")))
		}
		return strings.Join(parts, "&")
	}
	switch r.Intn(20) {
	case 0:
		c.Rq.M, path = wireOne(r, "GET", "HEAD"), wireOne(r, "/v2/", "/v2")
	case 1:
		c.Rq.M, path = "GET", "/v2/"+repo+"/blobs/"+validDigest()
	case 2:
		c.Rq.M, path = "HEAD", "/v2/"+repo+"/blobs/"+validDigest()
	case 3:
		c.Rq.M, path = "DELETE", "/v2/"+repo+"/blobs/"+validDigest()
	case 4:
		c.Rq.M, path = "POST", "/v2/"+repo+wireOne(r, "/blobs/uploads/", "/blobs/uploads")
	case 5:
		c.Rq.M, path, rawq = "POST", "/v2/"+repo+"/blobs/uploads/", "digest="+url.QueryEscape(validDigest())
	case 6:
		c.Rq.M, path, rawq = "POST", "/v2/"+repo+"/blobs/uploads/", "mount="+url.QueryEscape(validDigest())+wireOne(r, "&from="+url.QueryEscape(validRepo()), "&from="+url.QueryEscape(validRepo()), "", "&from=")
	case 7:
		c.Rq.M, path = "GET", "/v2/"+repo+"/blobs/uploads/"+validID()
	case 8, 9:
		c.Rq.M, path = "PATCH", "/v2/"+repo+"/blobs/uploads/"+validID()
	case 10, 11:
		c.Rq.M, path, rawq = "PUT", "/v2/"+repo+"/blobs/uploads/"+validID(), "digest="+url.QueryEscape(validDigest())
	case 12:
		c.Rq.M, path = "GET", "/v2/"+repo+"/manifests/"+wireOne(r, validTag(), validDigest())
	case 13:
		c.Rq.M, path = "HEAD", "/v2/"+repo+"/manifests/"+wireOne(r, validTag(), validDigest())
	case 14, 15:
		c.Rq.M, path = "PUT", "/v2/"+repo+"/manifests/"+wireOne(r, validTag(), bodySha, bodySha, validDigest(), bodyOther)
	case 16:
		c.Rq.M, path = "DELETE", "/v2/"+repo+"/manifests/"+wireOne(r, validTag(), validDigest())
	case 17:
		c.Rq.M, path, rawq = "GET", "/v2/"+repo+"/tags/list", listq()
	case 18:
		c.Rq.M, path, rawq = "GET", "/v2/_catalog", listq()
	default:
		c.Rq.M, path = "GET", "/v2/"+repo+"/referrers/"+validDigest()
	}
	// ... perturbed, about half of the time, in one or more ways
	if r.Intn(2) == 0 {
		for k := 1 + r.Intn(2); k > 0; k-- {
			switch r.Intn(8) {
			case 0:
				c.Rq.M = wireOne(r, "GET", "HEAD", "PUT", "POST", "PATCH", "DELETE", "OPTIONS", "TRACE", "CONNECT", "get", "", "PROPFIND", "G ET", "P\xd6ST")
			case 1:
				path = wireMutate(r, path)
			case 2:
				path = wireWellFormedPath(r)
			case 3:
				n := r.Intn(30)
				b := make([]byte, n)
				r.Read(b)
				path = wireOne(r, "/v2/", "/", "") + string(b)
			case 4:
				path = strings.Replace(path, repo, wireRepo(r), 1)
			case 5:
				rawq = wireRawQueryRandom(r)
			case 6:
				rawq = wireMutate(r, rawq)
			default:
				if i := strings.LastIndex(path, "/"); i >= 0 {
					path = path[:i+1] + wireOne(r, wireTag(r), wireDigest(r), wireUploadID(r), wireComponent(r))
				}
			}
		}
	}
	c.Rq.Path = wireOf(path)
	c.Rq.Q.UseRaw = true
	c.Rq.Q.Raw = wireOf(rawq)
	// headers
	rng := func() string {
		a, b := r.Intn(8), r.Intn(8)
		switch r.Intn(10) {
		case 0:
			return wireOne(r, "bytes=0-"+wireBoundary(r), "bytes="+wireBoundary(r)+"-", "bytes="+strconv.Itoa(r.Intn(4))+"-"+wireBoundary(r), "bytes="+wireBoundary(r)+"-"+wireBoundary(r))
		case 3:
			// degenerate specs: bare dashes, empty specs, blanks, suffix ranges, among ordinary ones; unit missing or alone
			k := 1 + r.Intn(4)
			specs := make([]string, k)
			for i := range specs {
				specs[i] = wireOne(r, "-", "-", "", " ", " - ", "\t-", "--", "-5", "- 5", "0-1", "3-", " 0 - 1 ", "x", "0--1", "0")
			}
			return wireOne(r, "bytes=", "bytes=", "bytes=", "bytes= ", "bytes", "", "=", "Bytes=", "items=") + strings.Join(specs, wireOne(r, ",", ",", ", ", " ,"))
		case 2:
			return wireOne(r, "bytes=", "bytes=-", "bytes=a-b", "bytes=0-1,3-4", "bytes=-3", "bytes= 0 - 1 ", "items=0-1", "bytes=5-2", "bytes=99999999999-", "bytes=1-99999999999", "bytes=+1-2", "bytes=0-0,")
		case 1:
			return fmt.Sprintf("bytes=%d-", a)
		default:
			return fmt.Sprintf("bytes=%d-%d", a, b)
		}
	}
	if r.Intn(4) == 0 {
		c.Rq.H.Range = wireOf(rng())
	}
	if r.Intn(3) == 0 {
		a, l := r.Intn(6), r.Intn(5)
		switch r.Intn(8) {
		case 0:
			c.Rq.H.Crange = wireOf(wireOne(r, "abc", "1-x", "-1-2", "5-2", "+1-3", "1", "-", "0-0x", "3--1", "99999999999-99999999999", "bytes 0-1/2", " 0-1"))
		case 1:
			c.Rq.H.Crange = wireOf(wireOne(r, "0-0", "0-0", "0-"+wireBoundary(r), wireBoundary(r)+"-"+wireBoundary(r)))
		default:
			c.Rq.H.Crange = wireOf(fmt.Sprintf("%d-%d", a, a+l-1))
		}
	}
	if r.Intn(3) == 0 {
		c.Rq.H.Ctype = wireOf(wireOne(r, "application/vnd.oci.image.manifest.v1+json", "application/vnd.oci.image.manifest.v1+json",
			"application/vnd.oci.image.index.v1+json", "application/json", "application/octet-stream", "text/plain; charset=utf-8", "x"))
	}
	switch r.Intn(6) {
	case 0:
		c.Rq.H.Cl = -1
	case 1:
		c.Rq.H.Cl = r.Intn(8)
	default:
		c.Rq.H.Cl = len(c.Rq.Body.Bytes)
	}
	// script
	ans := func(pOk int) string {
		if r.Intn(100) < pOk {
			return "ok"
		}
		return wireAnswers[r.Intn(len(wireAnswers))]
	}
	c.Sc = wireScript{Ans: ans(60), Size: r.Intn(9), Mt: wireOf(wireOne(r, "application/x-test", "application/vnd.oci.image.manifest.v1+json", "")),
		Rdig: wireOf("sha256:" + wirePick(r, wireHex, 64)), ID: wireOf(wireOne(r, "id", "a/b?c=d e%", "é世", wirePick(r, wireLow, 1+r.Intn(20)), wirePick(r, wireLow, 1+r.Intn(20)), wireOne(r, "", "i\xff", "\xc0\x80", "ok"))),
		Chunk: r.Intn(100000), Wsize: r.Intn(50), Werr: ans(85), Cerr: ans(85), Merr: ans(75), Iterr: ans(75), Items: []wireCodes{}}
	referrers := strings.Contains(path, "/referrers/")
	for i, k := 0, r.Intn(5); i < k; i++ {
		if referrers {
			c.Sc.Items = append(c.Sc.Items, wireOf("sha256:"+wirePick(r, wireHex, 64)))
		} else {
			c.Sc.Items = append(c.Sc.Items, wireOf(wireOne(r, "a", "b", "c", "latest", "v1.0", "foo/bar", "x y", "é", "a&b=c", wirePick(r, wireLow, 1+r.Intn(5)))))
		}
	}
	// error shape
	c.Sc.Eshape = "bare"
	if r.Intn(3) == 0 {
		c.Sc.Eshape = wireOne(r, "wrap", "http", "httpresp", "httprespbody")
		c.Sc.Estatus = []int{400, 401, 403, 404, 405, 409, 416, 418, 429, 500, 502, 503}[r.Intn(12)]
	}
	// reader faults
	if r.Intn(8) == 0 {
		c.Sc.Rfail = 1 + r.Intn(c.Sc.Size+2)
	}
	c.Sc.Rcerr = ans(88)
	// options
	c.O.Locs = "nil"
	if r.Intn(6) == 0 {
		c.O.Locs = wireOne(r, "one", "many", "none", "err")
	}
	if r.Intn(3) == 0 {
		c.O = wireOpts{Noref: r.Intn(2) == 0, Nosingle: r.Intn(2) == 0, Maxpage: r.Intn(4), Omitdig: r.Intn(2) == 0, Omitlink: r.Intn(2) == 0, Locs: c.O.Locs}
	}
	return c
}
