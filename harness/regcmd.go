package main

import (
	"bufio"
	"context"
	"encoding/json"
	"flag"
	"fmt"
	"math/rand"
	"os"
	"strings"

	"cuelabs.dev/go/oci/ociregistry"
)

func init() { commands["reg"] = regCmd }

// regCmd executes registry scenarios (TLC-generated ones from -scen, and/or -n seeded
// random ones) on the stacks given and writes one trace file: a catalogue line, then per
// scenario a reset line followed by one line per step (and a snap line after each step).
func regCmd(args []string) error {
	fs := flag.NewFlagSet("reg", flag.ExitOnError)
	seed := fs.Int64("seed", 1, "seed for random scenarios")
	n := fs.Int("n", 0, "number of random scenarios")
	steps := fs.Int("steps", 30, "steps per random scenario")
	scen := fs.String("scen", "", "file with one JSON scenario (list of ops) per line, over the mc catalogue")
	stacks := fs.String("stacks", "mem", "semicolon-separated stack expressions")
	catKind := fs.String("cat", "rand", "catalogue for random scenarios: mc or rand")
	immMode := fs.String("imm", "both", "immutable-tags mode: true, false or both")
	profile := fs.String("profile", "all", "op mix for random scenarios: all, upload, range, manifest, list")
	out := fs.String("out", "", "trace file")
	snap := fs.Bool("snap", true, "record a state snapshot after every step")
	record := fs.Bool("record", true, "record the backend calls behind stacks with an HTTP hop")
	replay := fs.String("replay", "", "re-execute the scenarios stored in this trace file (a replay file written by a check)")
	pre := fs.Int("pre", 0, "apply the first N ops of each scenario directly to the in-memory registry underneath the stack")
	honest := fs.Bool("honest", false, "uploads only as a well-behaved caller drives them (needed for stacks with an HTTP hop)")
	fs.Parse(args)
	genRetireAfterCommit = strings.Contains(*stacks, "http")
	genBadNames = *stacks == "mem"
	f, err := os.Create(*out)
	if err != nil {
		return err
	}
	defer f.Close()
	bw := bufio.NewWriterSize(f, 1<<20)
	defer bw.Flush()
	enc := json.NewEncoder(bw)
	rnd := rand.New(rand.NewSource(*seed))
	var cat *Catalog
	catMeta := ev{"kind": "mc"}
	if *replay != "" {
		// rebuild the catalogue the stored scenario was recorded with
		m, err := replayMeta(*replay)
		if err != nil {
			return err
		}
		catMeta = m
	} else if !(*catKind == "mc" || *scen != "") {
		catMeta = ev{"kind": "rand", "seed": float64(*seed), "big": strings.Contains(*stacks, "http")}
	}
	if catMeta["kind"] == "rand" {
		cs := int64(catMeta["seed"].(float64))
		cat = randCatalog(rand.New(rand.NewSource(cs*7919+1)), 4, 4, 9, 12, catMeta["big"] == true)
		cat.addPhantoms()
	} else {
		cat = mcCatalog()
	}
	hdr := cat.header()
	hdr["catmeta"] = catMeta
	enc.Encode(hdr)
	stackList := strings.Split(*stacks, ";")
	total := 0
	run := func(sc Scenario) error {
		env := &stackEnv{imm: sc.Imm}
		var rec *recorder
		wrap := "none"
		if strings.Contains(sc.Stack, "ro(") {
			wrap = "ro"
		} else if strings.Contains(sc.Stack, "immw(") {
			wrap = "immw"
		}
		if *record && wrap == "none" && strings.Contains(sc.Stack, "http") && !strings.Contains(sc.Stack, "sub(") && !strings.Contains(sc.Stack, "unify") && !strings.Contains(sc.Stack, "redir") && !strings.Contains(sc.Stack, "funcsnr") {
			env.wrapMem = func(r ociregistry.Interface) ociregistry.Interface {
				rec = &recorder{Interface: r, cat: cat}
				return rec
			}
		}
		top, rest, err := env.build(sc.Stack)
		if err != nil || strings.TrimSpace(rest) != "" {
			return fmt.Errorf("stack %q: %v %q", sc.Stack, err, rest)
		}
		defer env.close()
		srvURL := ""
		if strings.HasPrefix(strings.TrimSpace(sc.Stack), "http") && env.singlePost {
			srvURL = env.serverURL
		}
		rawURL := ""
		if strings.HasPrefix(strings.TrimSpace(sc.Stack), "http") && strings.Count(sc.Stack, "http") == 1 {
			rawURL = env.serverURL
		}
		w := &world{rewalk: true, serverURL: srvURL, rawURL: rawURL, blobTypes: strings.Count(sc.Stack, "http") == 0, cat: cat, top: top, writers: map[string]BlobWriterT{}, ids: map[string]string{}, out: enc, rec: rec, quiesce: env.quiesce, setOp: env.curOp.Store, resetConns: env.resetConns}
		if *snap {
			for _, m := range env.mems {
				w.snapAll = append(w.snapAll, m)
			}
			w.prefix = env.subPrefix
		}
		w.emit(ev{"op": "reset", "imm": sc.Imm, "stack": sc.Stack, "hops": strings.Count(sc.Stack, "http"), "rec": rec != nil,
			"omitdigest": strings.Contains(sc.Stack, "omitdigest"), "norange": strings.Contains(sc.Stack, "funcsnr"), "wrap": wrap, "minchunk": minChunkOf(sc.Stack, env)})
		ctx := context.Background()
		for i, op := range sc.Ops {
			npre := *pre
			if sc.Pre > 0 {
				npre = sc.Pre
			}
			if i < npre && len(env.mems) == 1 {
				// pre-population: applied to the in-memory registry directly, underneath the stack
				w.top, w.direct = env.mems[0], true
			} else {
				if w.direct {
					// writer handles obtained underneath do not go through the stack; the ids of
					// sessions opened underneath mean nothing to a client
					w.writers = map[string]BlobWriterT{}
					if strings.Contains(sc.Stack, "http") {
						w.ids = map[string]string{}
					}
				}
				w.top, w.direct = top, false
				w.noFreshIDs = strings.Contains(sc.Stack, "http") || strings.Contains(sc.Stack, "unify")
			}
			if !w.step(ctx, op) {
				// the call never returned: the trace ends here (closing the stack could block on it too)
				bw.Flush()
				fmt.Printf("{\"scenarios\":%d,\"hang\":true}\n", total+1)
				os.Exit(0)
			}
			w.snap(ctx)
		}
		total++
		return nil
	}
	if *replay != "" {
		scs, err := regReplayScenarios(*replay)
		if err != nil {
			return err
		}
		for _, s := range scs {
			*pre = s.pre
			if err := run(s.sc); err != nil {
				return err
			}
		}
	}
	if *scen != "" {
		sf, err := os.Open(*scen)
		if err != nil {
			return err
		}
		defer sf.Close()
		sc := bufio.NewScanner(sf)
		sc.Buffer(make([]byte, 1<<20), 1<<26)
		nscen := 0
		for sc.Scan() {
			var s Scenario
			if err := json.Unmarshal(sc.Bytes(), &s); err != nil {
				return fmt.Errorf("scenario: %v", err)
			}
			// the model has no notion of a blob's media type: TLC-chosen pushes are given one here, so that
			// re-pushes of the same content differ in it
			nscen++
			for i := range s.Ops {
				if (s.Ops[i].Op == "RawPatch" || s.Ops[i].Op == "RawPut") && (nscen+i)%3 == 0 {
					s.Ops[i].Chunk = 1 // streamed body
				}
				if s.Ops[i].Op == "PushBlob" && s.Ops[i].BMT == "" {
					s.Ops[i].BMT = []string{"", "other2", "image", ""}[(nscen+i)%4]
				}
			}
			for _, st := range stackList {
				s.Stack = st
				if err := run(s); err != nil {
					return err
				}
			}
		}
	}
	for i := 0; i < *n; i++ {
		imm := rnd.Intn(2) == 0
		if *immMode != "both" {
			imm = *immMode == "true"
		}
		ops := randOps(rnd, cat, *steps, *profile, *honest)
		for _, st := range stackList {
			if err := run(Scenario{Imm: imm, Stack: st, Ops: ops}); err != nil {
				return err
			}
		}
	}
	fmt.Printf("{\"scenarios\":%d}\n", total)
	return nil
}

// minChunkOf is the minimum chunk length the outermost client is told about: the chunk size
// of the writers of whatever the outermost server sits on.
func minChunkOf(stack string, env *stackEnv) int {
	if strings.Count(stack, "http") >= 2 {
		return 65536 // an inner client's writers report its default chunk size
	}
	if env.minChunk > 0 {
		return env.minChunk
	}
	return 8192
}

type regReplayScenario struct {
	sc  Scenario
	pre int
}

func replayMeta(path string) (ev, error) {
	f, err := os.Open(path)
	if err != nil {
		return nil, err
	}
	defer f.Close()
	sc := bufio.NewScanner(f)
	sc.Buffer(make([]byte, 1<<20), 1<<28)
	if !sc.Scan() {
		return nil, fmt.Errorf("empty replay file")
	}
	var hdr struct {
		Catmeta ev `json:"catmeta"`
	}
	if err := json.Unmarshal(sc.Bytes(), &hdr); err != nil {
		return nil, err
	}
	if hdr.Catmeta == nil {
		return ev{"kind": "mc"}, nil
	}
	return hdr.Catmeta, nil
}

// regReplayScenarios reads the scenarios (reset line, then one event per call) of a stored trace
// back into scenarios: the calls with their arguments, on the same stack and configuration.
func regReplayScenarios(path string) ([]regReplayScenario, error) {
	f, err := os.Open(path)
	if err != nil {
		return nil, err
	}
	defer f.Close()
	sc := bufio.NewScanner(f)
	sc.Buffer(make([]byte, 1<<20), 1<<28)
	var out []regReplayScenario
	first := true
	for sc.Scan() {
		if first {
			first = false
			continue
		}
		var e struct {
			Op
			Stack  string `json:"stack"`
			Imm    bool   `json:"imm"`
			Direct bool   `json:"direct"`
			InOp   string `json:"inop"`
		}
		if err := json.Unmarshal(sc.Bytes(), &e); err != nil {
			return nil, err
		}
		switch e.Op.Op {
		case "reset":
			out = append(out, regReplayScenario{sc: Scenario{Imm: e.Imm, Stack: e.Stack}})
		case "snap":
		default:
			if len(out) == 0 {
				continue
			}
			cur := &out[len(out)-1]
			op := e.Op
			if op.Op == "panic" {
				op.Op = e.InOp
			}
			if op.Op == "skip" {
				continue
			}
			op.StartPos = 0 // the concrete start string is stored
			if e.Direct && cur.pre == len(cur.sc.Ops) {
				cur.pre++
			}
			cur.sc.Ops = append(cur.sc.Ops, op)
		}
	}
	return out, sc.Err()
}
