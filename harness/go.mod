module verifharness

go 1.23

require (
	cuelabs.dev/go/oci/ociregistry v0.0.0
	github.com/opencontainers/go-digest v1.0.0
	github.com/opencontainers/image-spec v1.1.0
)

require (
	github.com/go-quicktest/qt v1.101.0 // indirect
	github.com/google/go-cmp v0.5.9 // indirect
	github.com/kr/pretty v0.3.1 // indirect
	github.com/kr/text v0.2.0 // indirect
	github.com/rogpeppe/go-internal v1.12.0 // indirect
)

replace cuelabs.dev/go/oci/ociregistry => /repo/ociregistry
