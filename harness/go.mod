module verifharness

go 1.23

require (
	cuelabs.dev/go/oci/ociregistry v0.0.0
	github.com/opencontainers/go-digest v1.0.0
	github.com/opencontainers/image-spec v1.1.0
)

replace cuelabs.dev/go/oci/ociregistry => /repo/ociregistry
