package main

// Command "ref" (family OciRef, property C17): runs strings through the reference parser,
// printer and validity predicates of ociref (and the deprecated wrappers in ociregistry),
// through the URL router of ociserver with a recording backend, and through the request
// constructor of ociclient with a recording transport, and logs inputs and outputs as
// sequences of character codes.  No judging here: OciRefTrace.tla is the oracle.

import (
	"bufio"
	"bytes"
	"context"
	"encoding/json"
	"flag"
	"fmt"
	"io"
	"math/rand"
	"net/http"
	"net/http/httptest"
	"net/url"
	"os"
	"strconv"
	"strings"

	"cuelabs.dev/go/oci/ociregistry"
	"cuelabs.dev/go/oci/ociregistry/ociclient"
	"cuelabs.dev/go/oci/ociregistry/ociref"
	"cuelabs.dev/go/oci/ociregistry/ociserver"
)

func init() { commands["ref"] = refCmd }

type refEv = map[string]any

func refCodes(s string) []int {
	out := make([]int, len(s))
	for i := 0; i < len(s); i++ {
		out[i] = int(s[i])
	}
	return out
}

func refFromCodes(v any) string {
	xs, _ := v.([]any)
	b := make([]byte, 0, len(xs))
	for _, x := range xs {
		f, _ := x.(float64)
		b = append(b, byte(int(f)))
	}
	return string(b)
}

// ---------------------------------------------------------------- recording backend

type refCall struct {
	name, repo, ref string
}

type refBackend struct {
	calls []refCall
}

func (b *refBackend) rec(name, repo, ref string) {
	b.calls = append(b.calls, refCall{name, repo, ref})
}

func (b *refBackend) funcs() *ociregistry.Funcs {
	return &ociregistry.Funcs{
		NewError: func(ctx context.Context, methodName, repo string) error {
			b.rec(methodName, repo, "")
			return ociregistry.ErrUnsupported
		},
		GetBlob_: func(ctx context.Context, repo string, d ociregistry.Digest) (ociregistry.BlobReader, error) {
			b.rec("GetBlob", repo, string(d))
			return nil, ociregistry.ErrBlobUnknown
		},
		GetManifest_: func(ctx context.Context, repo string, d ociregistry.Digest) (ociregistry.BlobReader, error) {
			b.rec("GetManifest", repo, string(d))
			return nil, ociregistry.ErrManifestUnknown
		},
		GetTag_: func(ctx context.Context, repo string, tag string) (ociregistry.BlobReader, error) {
			b.rec("GetTag", repo, tag)
			return nil, ociregistry.ErrManifestUnknown
		},
		Tags_: func(ctx context.Context, repo string, startAfter string) ociregistry.Seq[string] {
			b.rec("Tags", repo, startAfter)
			return ociregistry.ErrorSeq[string](ociregistry.ErrNameUnknown)
		},
		Repositories_: func(ctx context.Context, startAfter string) ociregistry.Seq[string] {
			b.rec("Repositories", "", startAfter)
			return ociregistry.ErrorSeq[string](ociregistry.ErrUnsupported)
		},
		Referrers_: func(ctx context.Context, repo string, d ociregistry.Digest, artifactType string) ociregistry.Seq[ociregistry.Descriptor] {
			b.rec("Referrers", repo, string(d))
			return ociregistry.ErrorSeq[ociregistry.Descriptor](ociregistry.ErrNameUnknown)
		},
		PushBlobChunkedResume_: func(ctx context.Context, repo, id string, offset int64, chunkSize int) (ociregistry.BlobWriter, error) {
			// the upload id is not part of the projection (its codec is outside C17)
			b.rec("PushBlobChunkedResume", repo, "")
			return nil, ociregistry.ErrBlobUploadUnknown
		},
	}
}

// ---------------------------------------------------------------- recording transport

type refTransport struct {
	reqs []*http.Request
}

func (t *refTransport) RoundTrip(req *http.Request) (*http.Response, error) {
	t.reqs = append(t.reqs, req)
	body := `{"errors":[{"code":"MANIFEST_UNKNOWN","message":"manifest unknown"}]}`
	resp := &http.Response{
		StatusCode:    http.StatusNotFound,
		Status:        "404 Not Found",
		Proto:         "HTTP/1.1",
		ProtoMajor:    1,
		ProtoMinor:    1,
		Header:        http.Header{"Content-Type": {"application/json"}},
		ContentLength: int64(len(body)),
		Body:          io.NopCloser(strings.NewReader(body)),
		Request:       req,
	}
	if req.Method == "HEAD" {
		resp.Body = http.NoBody
		resp.ContentLength = 0
	}
	return resp, nil
}

// ---------------------------------------------------------------- the driver

type refDriver struct {
	backend *refBackend
	server  http.Handler
	enc     *json.Encoder
	stage   string // the exported function being called (named in panic events)
	events  int
	seen    map[string]bool // strings already run (each string is run once per trace)
	light   int             // level-1 strings run so far
}

func newRefDriver(w io.Writer) *refDriver {
	d := &refDriver{backend: &refBackend{}, enc: json.NewEncoder(w), seen: map[string]bool{}}
	d.server = ociserver.New(d.backend.funcs(), nil)
	return d
}

func (d *refDriver) emit(e refEv) {
	d.enc.Encode(e)
	d.events++
}

func refParts(r ociref.Reference) [][]int {
	return [][]int{refCodes(r.Host), refCodes(r.Repository), refCodes(r.Tag), refCodes(string(r.Digest))}
}

// exec executes one input descriptor on the real code and returns the event to log.
// A panic in the code under test becomes a "panic" event carrying the input.
func (d *refDriver) exec(in refEv) (out refEv) {
	defer func() {
		if r := recover(); r != nil {
			out = refEv{"a_text": out["a_text"], "op": "panic", "in": in, "panic": fmt.Sprintf("%s: %v", d.stage, r)}
		}
	}()
	out = refEv{}
	for k, v := range in {
		out[k] = v
	}
	// a_text: the input rendered for human readers of a rejected event (first key of the
	// line; not read by the specification)
	switch in["op"] {
	case "ref":
		s := refFromCodes(in["s"])
		out["a_text"] = strconv.QuoteToASCII(s)
		d.stage = "ociref.IsValidHost"
		out["host"] = ociref.IsValidHost(s)
		d.stage = "ociref.IsValidRepository"
		out["repo"] = ociref.IsValidRepository(s)
		d.stage = "ociref.IsValidDigest"
		out["digest"] = ociref.IsValidDigest(s)
		d.stage = "ociref.ParseRelative"
		out["rel"] = refParseResult(ociref.ParseRelative(s))
		d.stage = "ociref.Parse"
		out["abs"] = refParseResult(ociref.Parse(s))
		d.stage = "ociregistry.IsValidRepoName"
		out["lrepo"] = ociregistry.IsValidRepoName(s)
		d.stage = "ociregistry.IsValidDigest"
		out["ldigest"] = ociregistry.IsValidDigest(s)
		d.stage = "ociref.IsValidTag"
		out["tag"] = ociref.IsValidTag(s)
		d.stage = "ociregistry.IsValidTag"
		out["ltag"] = ociregistry.IsValidTag(s)
	case "print":
		p, _ := in["p"].([]any)
		var r ociref.Reference
		if len(p) == 4 {
			r = ociref.Reference{Host: refFromCodes(p[0]), Repository: refFromCodes(p[1]), Tag: refFromCodes(p[2]), Digest: ociref.Digest(refFromCodes(p[3]))}
		}
		out["a_text"] = strconv.QuoteToASCII(fmt.Sprintf("%#v", r))
		d.stage = "ociref.Reference.String"
		str := r.String()
		out["str"] = refCodes(str)
		d.stage = "ociref.Parse"
		out["back"] = refParseResult(ociref.Parse(str)) // the round trip Parse(String(parts))
	case "route":
		path := refFromCodes(in["path"])
		out["a_text"] = "GET " + strconv.QuoteToASCII(path)
		d.backend.calls = nil
		req := (&http.Request{
			Method:     "GET",
			URL:        &url.URL{Path: path},
			Proto:      "HTTP/1.1",
			ProtoMajor: 1,
			ProtoMinor: 1,
			Header:     http.Header{},
			Body:       http.NoBody,
			Host:       "registry.example",
		}).WithContext(context.Background())
		rec := httptest.NewRecorder()
		d.stage = "ociserver.ServeHTTP GET " + fmt.Sprintf("%q", path)
		d.server.ServeHTTP(rec, req)
		out["status"] = rec.Code
		out["ncalls"] = len(d.backend.calls)
		if len(d.backend.calls) > 0 {
			c := d.backend.calls[0]
			out["call"], out["repo"], out["ref"] = c.name, refCodes(c.repo), refCodes(c.ref)
		} else {
			out["call"], out["repo"], out["ref"] = "-", []int{}, []int{}
		}
	case "client":
		fn, _ := in["fn"].(string)
		repo, ref := refFromCodes(in["repo"]), refFromCodes(in["ref"])
		out["a_text"] = fn + "(" + strconv.QuoteToASCII(repo) + ", " + strconv.QuoteToASCII(ref) + ")"
		tr := &refTransport{}
		d.stage = "ociclient.New"
		c, err := ociclient.New("registry.example", &ociclient.Options{Transport: tr})
		if err != nil {
			panic(err) // harness failure: the fixed host is valid
		}
		ctx := context.Background()
		d.stage = "ociclient." + fn
		switch fn {
		case "ResolveTag":
			_, err = c.ResolveTag(ctx, repo, ref)
		case "GetTag":
			var r ociregistry.BlobReader
			r, err = c.GetTag(ctx, repo, ref)
			if err == nil {
				r.Close()
			}
		case "GetManifest":
			var r ociregistry.BlobReader
			r, err = c.GetManifest(ctx, repo, ociregistry.Digest(ref))
			if err == nil {
				r.Close()
			}
		case "GetBlob":
			var r ociregistry.BlobReader
			r, err = c.GetBlob(ctx, repo, ociregistry.Digest(ref))
			if err == nil {
				r.Close()
			}
		default:
			return refEv{"op": "badinput", "in": in}
		}
		out["err"] = err != nil
		out["sent"] = len(tr.reqs) > 0
		out["nreq"] = len(tr.reqs)
		if len(tr.reqs) > 0 {
			out["method"] = tr.reqs[0].Method
			out["path"] = refCodes(tr.reqs[0].URL.Path)
		} else {
			out["method"] = "-"
			out["path"] = []int{}
		}
	default:
		return refEv{"op": "badinput", "in": in}
	}
	return out
}

// refParseResult projects a parse result: ok, the four parts, String() of the result, and
// pv: what the implementation's OWN predicates say about each returned part
// (0 false, 1 true, 2 not asked because the part is empty or the parse failed).
func refParseResult(r ociref.Reference, err error) refEv {
	pv := []int{2, 2, 2, 2}
	if err == nil {
		ask := func(i int, part string, f func(string) bool) {
			if part != "" {
				pv[i] = 0
				if f(part) {
					pv[i] = 1
				}
			}
		}
		ask(0, r.Host, ociref.IsValidHost)
		ask(1, r.Repository, ociref.IsValidRepository)
		ask(2, r.Tag, ociref.IsValidTag)
		ask(3, string(r.Digest), ociref.IsValidDigest)
	}
	return refEv{"ok": err == nil, "ref": refParts(r), "str": refCodes(r.String()), "pv": pv}
}

func refAny(xs []int) []any {
	out := make([]any, len(xs))
	for i, x := range xs {
		out[i] = float64(x)
	}
	return out
}

// runString logs the scenario of one string: the ociref functions; the string as a path
// element of GET requests served by ociserver; the string as an argument of the client.
// level 1: three requests (manifests, blobs, tags/list) and one client call; level 2: five
// requests and four client calls.  A scenario (reset line) is one string, or a group of 8
// level-1 strings.  A panic event ends its scenario (a reset line follows), so that the
// events after it are still validated.
func (d *refDriver) runString(src string, s string, pred any, level int) {
	if d.seen[s] {
		return
	}
	d.seen[s] = true
	cs := refAny(refCodes(s))
	in := refEv{"op": "ref", "s": cs}
	if pred != nil {
		in["pred"] = pred
	}
	reset := refEv{"op": "reset", "src": src}
	step := func(in refEv) {
		ev := d.exec(in)
		d.emit(ev)
		if ev["op"] == "panic" {
			d.emit(reset)
		}
	}
	// level 1 (the bulk of short TLC-enumerated strings): one reset line per group of 8
	if level >= 2 || d.light%8 == 0 {
		d.emit(reset)
	}
	if level < 2 {
		d.light++
	}
	step(in)
	paths := []string{"/v2/foo/manifests/" + s, "/v2/foo/blobs/" + s, "/v2/" + s + "/tags/list"}
	if level >= 2 {
		paths = append(paths, "/v2/"+s+"/manifests/a", "/v2/foo/referrers/"+s)
	}
	for _, p := range paths {
		step(refEv{"op": "route", "path": refAny(refCodes(p))})
	}
	foo := refAny(refCodes("foo"))
	step(refEv{"op": "client", "fn": "ResolveTag", "repo": foo, "ref": cs})
	if level >= 2 {
		step(refEv{"op": "client", "fn": "GetTag", "repo": foo, "ref": cs})
		step(refEv{"op": "client", "fn": "GetManifest", "repo": foo, "ref": cs})
		step(refEv{"op": "client", "fn": "ResolveTag", "repo": cs, "ref": refAny(refCodes("a"))})
	}
}

func refCmd(args []string) error {
	fs := flag.NewFlagSet("ref", flag.ExitOnError)
	seed := fs.Int64("seed", 1, "seed for random strings")
	n := fs.Int("n", 0, "number of random / mutated strings")
	cases := fs.String("cases", "", "file with one TLC-exported case per line ({kind, s | p, v})")
	replay := fs.String("replay", "", "replay file: re-execute the inputs of its events")
	level := fs.Int("level", 2, "1: three requests and one client call per string; 2: five and four")
	lightMax := fs.Int("lightmax", -1, "TLC-exported plain strings of at most this many bytes are run at level 1")
	out := fs.String("out", "", "trace file")
	fs.Parse(args)
	f, err := os.Create(*out)
	if err != nil {
		return err
	}
	defer f.Close()
	bw := bufio.NewWriterSize(f, 1<<20)
	defer bw.Flush()
	d := newRefDriver(bw)
	d.emit(refEv{"op": "header", "family": "OciRef", "seed": *seed})
	total := 0

	if *replay != "" {
		rf, err := os.Open(*replay)
		if err != nil {
			return err
		}
		defer rf.Close()
		sc := bufio.NewScanner(rf)
		sc.Buffer(make([]byte, 1<<20), 1<<26)
		first := true
		for sc.Scan() {
			if first { // header
				first = false
				continue
			}
			var e refEv
			if err := json.Unmarshal(sc.Bytes(), &e); err != nil {
				return fmt.Errorf("replay: %v", err)
			}
			switch e["op"] {
			case "reset":
				d.emit(e)
			case "panic":
				in, _ := e["in"].(map[string]any)
				d.emit(d.exec(refInputOf(in)))
			default:
				d.emit(d.exec(refInputOf(e)))
			}
			total++
		}
	}

	if *cases != "" {
		cf, err := os.Open(*cases)
		if err != nil {
			return err
		}
		defer cf.Close()
		sc := bufio.NewScanner(cf)
		sc.Buffer(make([]byte, 1<<20), 1<<26)
		for sc.Scan() {
			var c struct {
				Kind string `json:"kind"`
				S    []any  `json:"s"`
				P    []any  `json:"p"`
				V    any    `json:"v"`
			}
			dec := json.NewDecoder(bytes.NewReader(sc.Bytes()))
			if err := dec.Decode(&c); err != nil {
				return fmt.Errorf("case: %v", err)
			}
			s := refFromCodes(c.S)
			if c.Kind == "parts" {
				d.emit(refEv{"op": "reset", "src": "tlc"})
				ev := d.exec(refEv{"op": "print", "p": c.P})
				d.emit(ev)
				if str, ok := ev["str"].([]int); ok {
					// the string the REAL printer produced is what is parsed next; the
					// prediction travels with the string TLC printed, so it is attached
					// only if they agree (the print event itself is judged by TLC)
					printed := make([]byte, len(str))
					for i, x := range str {
						printed[i] = byte(x)
					}
					if string(printed) != s {
						d.runString("tlc", string(printed), nil, *level)
						total++
						continue
					}
				}
			}
			lv := *level
			if c.Kind == "str" && len(s) <= *lightMax {
				lv = 1
			}
			d.runString("tlc", s, c.V, lv)
			total++
		}
	}

	rnd := rand.New(rand.NewSource(*seed))
	for i := 0; i < *n; i++ {
		if i%5 == 4 { // random parts through the printer, then the printed string
			parts := []string{refHostGen(rnd), refRepoGen(rnd), refTagGen(rnd), refDigestGen(rnd)}
			for k := range parts {
				if rnd.Intn(12) == 0 {
					parts[k] = refMutate(rnd, parts[k])
				} else if k >= 2 && rnd.Intn(3) == 0 {
					parts[k] = ""
				}
			}
			p := make([]any, 4)
			for k := range parts {
				p[k] = refAny(refCodes(parts[k]))
			}
			d.emit(refEv{"op": "reset", "src": "rand"})
			ev := d.exec(refEv{"op": "print", "p": p})
			d.emit(ev)
			if str, ok := ev["str"].([]int); ok {
				printed := make([]byte, len(str))
				for i, x := range str {
					printed[i] = byte(x)
				}
				d.runString("rand", string(printed), nil, *level)
			}
			total++
			continue
		}
		d.runString("rand", refRandom(rnd), nil, *level)
		total++
	}
	fmt.Printf("{\"strings\":%d,\"events\":%d}\n", total, d.events)
	return nil
}

// refInputOf strips the outputs from a logged event, leaving the input descriptor.
func refInputOf(e map[string]any) refEv {
	in := refEv{"op": e["op"]}
	switch e["op"] {
	case "ref":
		in["s"] = e["s"]
		if p, ok := e["pred"]; ok {
			in["pred"] = p
		}
	case "print":
		in["p"] = e["p"]
	case "route":
		in["path"] = e["path"]
	case "client":
		in["fn"], in["repo"], in["ref"] = e["fn"], e["repo"], e["ref"]
	}
	return in
}

// ---------------------------------------------------------------- random strings
// Grammar-directed strings with valid and invalid parts, byte mutations of them (including
// non-UTF-8 bytes and emptied components), and unstructured strings over a biased alphabet.

const refLowAlnum = "abcdefghijklmnopqrstuvwxyz0123456789"
const refAlnum = refLowAlnum + "ABCDEFGHIJKLMNOPQRSTUVWXYZ"
const refHex = "0123456789abcdef"

func refPick(r *rand.Rand, alphabet string, n int) string {
	b := make([]byte, n)
	for i := range b {
		b[i] = alphabet[r.Intn(len(alphabet))]
	}
	return string(b)
}

func refOneOf(r *rand.Rand, xs ...string) string { return xs[r.Intn(len(xs))] }

func refLabel(r *rand.Rand) string {
	n := 1 + r.Intn(6)
	s := refPick(r, refAlnum, n)
	if n > 2 && r.Intn(3) == 0 {
		b := []byte(s)
		b[1+r.Intn(n-2)] = '-'
		s = string(b)
	}
	return s
}

func refHostGen(r *rand.Rand) string {
	var h string
	switch r.Intn(8) {
	case 0:
		return ""
	case 1:
		h = refLabel(r) // needs a port
		if r.Intn(4) > 0 {
			h += ":" + refPick(r, "0123456789", 1+r.Intn(5))
		}
		return h
	case 2:
		h = "[" + refPick(r, "0123456789abcdefABCDEF:::", 1+r.Intn(12)) + "]"
	case 3:
		h = refOneOf(r, "localhost", "LOCALHOST", "127.0.0.1", "a.b-", "-a.b", "a..b", "a.b.", "[::1", "::1]", "[]", "[g]", "ex_ample.com", "a.b:", "a.b:x", "a:b:1")
	default:
		k := 2 + r.Intn(3)
		parts := make([]string, k)
		for i := range parts {
			parts[i] = refLabel(r)
		}
		h = strings.Join(parts, ".")
	}
	if r.Intn(3) == 0 {
		h += ":" + refPick(r, "0123456789", 1+r.Intn(5))
	}
	return h
}

func refComponent(r *rand.Rand) string {
	s := refPick(r, refLowAlnum, 1+r.Intn(5))
	for k := r.Intn(3); k > 0; k-- {
		s += refOneOf(r, ".", "_", "__", "-", "--", "---", "___", "..", "-_", "._") + refPick(r, refLowAlnum, 1+r.Intn(4))
	}
	return s
}

func refRepoGen(r *rand.Rand) string {
	switch r.Intn(12) {
	case 0:
		return refOneOf(r, "", "/", "a/", "/a", "a//b", "A", "a/B", "a b", "_a", "a_", "a.", ".a", "-a", "a-", "blobs/uploads", "a/blobs/uploads", "_catalog", "tags/list", "a/manifests/b")
	case 1: // around the length limit
		n := 250 + r.Intn(10)
		s := refPick(r, refLowAlnum, n)
		b := []byte(s)
		for i := 10 + r.Intn(40); i < n-1; i += 10 + r.Intn(60) {
			b[i] = '/'
		}
		return strings.ReplaceAll(string(b), "//", "a/")
	}
	k := 1 + r.Intn(4)
	parts := make([]string, k)
	for i := range parts {
		parts[i] = refComponent(r)
	}
	return strings.Join(parts, "/")
}

func refTagGen(r *rand.Rand) string {
	const word = refAlnum + "_"
	switch r.Intn(10) {
	case 0:
		return ""
	case 1:
		return refOneOf(r, ".", "-", ".a", "-a", "a b", "a!", "a/b", "a:b", "a@", "\x00", "é", "a\n")
	case 2:
		return refPick(r, word, 1) + refPick(r, word+".-", 125+r.Intn(6))
	}
	return refPick(r, word, 1) + refPick(r, word+".-", r.Intn(12))
}

func refDigestGen(r *rand.Rand) string {
	algs := []struct {
		name string
		n    int
	}{{"sha256", 64}, {"sha384", 96}, {"sha512", 128}}
	a := algs[r.Intn(3)]
	switch r.Intn(10) {
	case 0:
		return ""
	case 1:
		return a.name + ":" + refPick(r, refHex, a.n+refOneOfInt(r, -1, 1, -a.n, 32, -32))
	case 2:
		return a.name + ":" + strings.ToUpper(refPick(r, refHex, a.n))
	case 3:
		return refOneOf(r, "sha1", "md5", "sha256+b64", "SHA256", "sha-256", "sha256 ", "", "blake3", "sha512-256") + ":" + refPick(r, refHex, refOneOfInt(r, 32, 40, 64, 128))
	case 4:
		h := []byte(refPick(r, refHex, a.n))
		h[r.Intn(len(h))] = refOneOf(r, "g", "G", ":", "-", "=", "_", " ", "\xff")[0]
		return a.name + ":" + string(h)
	case 5:
		return refOneOf(r, a.name, a.name+":", ":"+refPick(r, refHex, a.n), a.name+refPick(r, refHex, a.n), a.name+"::"+refPick(r, refHex, a.n-1))
	}
	return a.name + ":" + refPick(r, refHex, a.n)
}

func refOneOfInt(r *rand.Rand, xs ...int) int { return xs[r.Intn(len(xs))] }

func refAssemble(r *rand.Rand) string {
	var b strings.Builder
	if h := refHostGen(r); h != "" || r.Intn(20) == 0 {
		b.WriteString(h)
		b.WriteByte('/')
	}
	b.WriteString(refRepoGen(r))
	if t := refTagGen(r); (t != "" && r.Intn(3) > 0) || r.Intn(25) == 0 {
		b.WriteByte(':')
		b.WriteString(t)
	}
	if d := refDigestGen(r); (d != "" && r.Intn(3) == 0) || r.Intn(25) == 0 {
		b.WriteByte('@')
		b.WriteString(d)
	}
	return b.String()
}

func refMutate(r *rand.Rand, s string) string {
	b := []byte(s)
	for k := 1 + r.Intn(2); k > 0; k-- {
		special := []byte("/:@.-_[]aA0 \n\x00\x7f\x80\xc3\xff%?#")
		c := special[r.Intn(len(special))]
		if r.Intn(3) == 0 {
			c = byte(r.Intn(256))
		}
		switch op := r.Intn(5); {
		case len(b) == 0 || op == 0: // insert
			i := r.Intn(len(b) + 1)
			b = append(b[:i], append([]byte{c}, b[i:]...)...)
		case op == 1: // delete
			i := r.Intn(len(b))
			b = append(b[:i], b[i+1:]...)
		case op == 2: // replace
			b[r.Intn(len(b))] = c
		case op == 3: // truncate
			b = b[:r.Intn(len(b)+1)]
		default: // duplicate a span
			i := r.Intn(len(b))
			j := i + r.Intn(len(b)-i+1)
			if j-i > 40 {
				j = i + 40
			}
			b = append(b[:j], append(append([]byte{}, b[i:j]...), b[j:]...)...)
		}
	}
	return string(b)
}

// refLongLens: lengths around every limit the grammar, the code or a plausible shortcut in
// it knows (tag 128, repository / DNS name 255, DNS name plus ":65535" 261, and beyond).
var refLongLens = []int{128, 129, 255, 256, 257, 261, 262, 263, 300, 300, 1000, 4096}

// refRepeat builds a string of exactly n bytes (n >= 4) by repeating unit and padding the
// last element with pad characters, so that it stays a valid host / repository / tag body.
func refRepeat(unit string, pad byte, n int) string {
	k := (n - 1) / len(unit)
	return strings.Repeat(unit, k) + strings.Repeat(string(pad), n-k*len(unit))
}

// refLong returns a reference (or a bare part) one of whose parts is built by repetition up
// to one of the lengths of refLongLens.
func refLong(r *rand.Rand) string {
	n := refLongLens[r.Intn(len(refLongLens))] + r.Intn(3) - 1
	unit := refOneOf(r, "a1.", "ab-c.", "x.", "Reg-1.io.")
	host := refRepeat(unit, 'z', n)
	if r.Intn(4) == 0 {
		host = refRepeat(unit, 'z', n-5) + ":" + refPick(r, "0123456789", 4)
	}
	repo := refRepeat(refOneOf(r, "a/", "ab__c/", "x.y-z/", "lib/"), 'q', n)
	tag := refRepeat(refOneOf(r, "v1.", "A_b-", "x"), '0', n)
	dig := refOneOf(r, "sha256", "sha512") + ":" + refPick(r, refHex, n)
	switch r.Intn(9) {
	case 0:
		return host
	case 1:
		return repo
	case 2:
		return tag
	case 3:
		return dig
	case 4:
		return host + "/" + refRepoGen(r)
	case 5:
		return host + "/" + refRepoGen(r) + ":" + refTagGen(r)
	case 6:
		return refOneOf(r, "", "reg.example/", "localhost:5000/") + repo + refOneOf(r, "", ":v1")
	case 7:
		return refOneOf(r, "", "reg.example/") + refRepoGen(r) + ":" + tag
	default:
		return refOneOf(r, "", "reg.example/") + refRepoGen(r) + "@" + dig
	}
}

// refSpaces: code points that strings.TrimSpace / unicode.IsSpace (or a hand-written trim)
// would remove; none of them belongs to any reference.
var refSpaces = []string{" ", "\t", "\n", "\v", "\f", "\r", "\u0085", "\u00a0", "\u2028", "\u3000", "\ufeff", "\x00", "  ", "\r\n"}

// refWrapped puts such a code point before, after, around or inside a reference that is
// valid more often than not.
func refWrapped(r *rand.Rand) string {
	var s string
	if r.Intn(3) > 0 {
		s = refOneOf(r, "reg.example", "localhost:5000", "[::1]:443", "a.b") + "/" + refComponent(r)
		if r.Intn(2) == 0 {
			s += ":" + refPick(r, refAlnum, 1+r.Intn(5))
		}
		if r.Intn(3) == 0 {
			s += "@sha256:" + refPick(r, refHex, 64)
		}
	} else {
		s = refAssemble(r)
	}
	w := refSpaces[r.Intn(len(refSpaces))]
	switch r.Intn(4) {
	case 0:
		return w + s
	case 1:
		return s + w
	case 2:
		return w + s + refSpaces[r.Intn(len(refSpaces))]
	default:
		i := r.Intn(len(s) + 1)
		return s[:i] + w + s[i:]
	}
}

func refRandom(r *rand.Rand) string {
	if r.Intn(25) == 0 {
		return refWrapped(r)
	}
	if r.Intn(40) == 0 {
		s := refLong(r)
		if r.Intn(5) == 0 {
			s = refMutate(r, s)
		}
		return s
	}
	switch k := r.Intn(20); {
	case k < 6:
		return refAssemble(r)
	case k < 12:
		return refMutate(r, refAssemble(r))
	case k < 14: // a bare part, possibly mutated
		s := []string{refHostGen(r), refRepoGen(r), refTagGen(r), refDigestGen(r)}[r.Intn(4)]
		if r.Intn(2) == 0 {
			s = refMutate(r, s)
		}
		return s
	case k < 15: // routing words as path elements
		return refOneOf(r, "blobs", "uploads", "manifests", "tags", "list", "referrers", "_catalog", "blobs/uploads", "blobs/uploads/", "a/blobs/uploads/x", "a/tags/list", "a/manifests/b", "v2", "..", ".", "a/../b", "tags/list", "x/blobs/uploads")
	default: // unstructured, over a biased alphabet
		const alpha = "aaabz09AZ..--__::://@@[]! \n\x00\xc3\xa9\xff"
		return refPick(r, alpha, r.Intn(9))
	}
}
