package main

// Command `faults` (properties C18 and the corrupted-read clause of C01, specification family
// OciClientFaults): drives a real ociclient.New(...) whose Options.Transport is a scripted
// http.RoundTripper (no sockets).  A scenario is a page size, a list of caller-level calls and
// a finite script of abstract responses; the transport renders the i-th abstract response to
// concrete headers and bytes and answers the i-th request with it; once the script is used up
// every further request gets a terminal transport error.  Each call runs under a watchdog
// (the "never loops" observer).  Logged per call: the call, every request the transport saw
// (projected to the abstract request of the specification) with the response it was given and
// the number of body bytes the client had consumed when the call returned, and the projected
// outcome (or panic / timeout).  No judgement is made here; TLC decides
// (spec/OciClientFaultsTrace.tla).

import (
	"bufio"
	"bytes"
	"context"
	"crypto/sha256"
	"crypto/sha512"
	"encoding/hex"
	"encoding/json"
	"errors"
	"flag"
	"fmt"
	"io"
	"math"
	"math/rand"
	"net/http"
	"os"
	"regexp"
	"runtime/debug"
	"strconv"
	"strings"
	"sync"
	"time"

	"cuelabs.dev/go/oci/ociregistry"
	"cuelabs.dev/go/oci/ociregistry/ociclient"
)

func init() { commands["faults"] = cfCmd }

const (
	cfHost         = "registry.test"
	cfRepo         = "foo/bar"
	cfTag          = "tag1"
	cfStart        = "n00-start" // the startAfter argument (as long as an item name)
	cfThreshold    = 128 * 1024  // ociclient's in-memory threshold for digest-less tag reads (unexported there)
	cfErrLimit     = 8 * 1024    // ociclient's error body size limit (unexported there)
	cfDefaultChunk = 64 * 1024   // ociclient's default chunk size (unexported there)
	cfClamp        = 1 << 30     // numbers are logged clamped to +-2^30 (TLC integers are 32 bits wide)
	cfMaxAlloc     = 1 << 29
	cfEndlessCap   = 4 << 20 // an "endless" body fails after this many bytes
	cfNetErr       = -1
)

// cfNum is a number of a scenario: either concrete, or scaled {"t":t,"k":k} = t*unit+k where the
// unit (in-memory threshold, default page size, "huge") is named by the field it appears in.
type cfNum struct {
	T, K int64
}

func (n *cfNum) UnmarshalJSON(b []byte) error {
	if len(b) > 0 && b[0] == '{' {
		var x struct{ T, K int64 }
		if err := json.Unmarshal(b, &x); err != nil {
			return err
		}
		n.T, n.K = x.T, x.K
		return nil
	}
	n.T = 0
	return json.Unmarshal(b, &n.K)
}

func (n cfNum) val(unit int64) int64 { return n.T*unit + n.K }

// cfResp is an abstract response (see OciClientFaults.tla).
type cfResp struct {
	Code   int               `json:"code"`
	Loc    string            `json:"loc"`
	Rf     string            `json:"rf"`
	Ra     int64             `json:"ra"`
	Rb     int64             `json:"rb"`
	Cl     cfNum             `json:"cl"`
	Dig    string            `json:"dig"`
	Halg   string            `json:"halg"`
	Hcont  string            `json:"hcont"`
	Link   string            `json:"link"`
	Ctype  string            `json:"ctype"`
	Mf     string            `json:"mf"`
	Mv     cfNum             `json:"mv"`
	Crf    string            `json:"crf"`
	Crtot  int64             `json:"crtot"`
	Body   string            `json:"body"`
	Bcont  string            `json:"bcont"`
	Bend   string            `json:"bend"`
	Items  cfNum             `json:"items"`
	Inames string            `json:"inames"`        // how a listing page names its items: fresh | repeat | lastfirst | back | start (see cfNames)
	Auth   string            `json:"auth"`          // WWW-Authenticate: none | bearer | basic
	Ecode  string            `json:"ecode"`         // the OCI error code an "errjson" body carries ("" = NAME_UNKNOWN)
	MvT    int64             `json:"mvt,omitempty"` // (in logged responses) mv was "huge": T, K of the scenario's number
	MvK    int64             `json:"mvk,omitempty"`
	Raw    map[string]string `json:"raw,omitempty"` // hex-encoded concrete values overriding the rendering of a class
}

type cfCall struct {
	Name   string `json:"name"`
	Ref    string `json:"ref"`
	O0     int64  `json:"o0"`
	O1     int64  `json:"o1"`
	Take   int    `json:"take"`
	Start  bool   `json:"start"`
	Wlen   int    `json:"wlen"`
	Hint   int    `json:"hint"`
	Off    int64  `json:"off"`
	Idform string `json:"idform"`
	Dg     string `json:"dg"`
	Csize  int64  `json:"csize"`
	Mt     bool   `json:"mt"`
}

type cfEvent struct {
	T string  `json:"t"`
	C *cfCall `json:"c,omitempty"`
	R *cfResp `json:"r,omitempty"`
}

type cfScenario struct {
	PS     int       `json:"ps"`
	Ev     []cfEvent `json:"ev"`
	calls  []cfCall
	script []cfResp
	src    string
}

func (s *cfScenario) split() {
	for _, e := range s.Ev {
		if e.T == "call" && e.C != nil {
			s.calls = append(s.calls, *e.C)
		} else if e.T == "resp" && e.R != nil {
			s.script = append(s.script, *e.R)
		}
	}
}

// ---------------------------------------------------------------- contents and digests
type cfContents struct {
	bytes  map[string][]byte
	byHash map[[32]byte]string          // sha256 of bytes -> first id with these bytes
	byDig  map[string][2]string         // digest string -> (alg, canonical id)
	digOf  map[string]map[string]string // id -> alg -> digest string
}

var cfCat = cfMakeContents()

func cfMakeContents() *cfContents {
	c := &cfContents{bytes: map[string][]byte{}, byHash: map[[32]byte]string{}, byDig: map[string][2]string{}, digOf: map[string]map[string]string{}}
	big := make([]byte, cfThreshold+1)
	rnd := rand.New(rand.NewSource(20261003))
	for i := range big {
		big[i] = byte(rnd.Intn(256))
	}
	bw := append([]byte(nil), big...)
	bw[len(bw)-1] ^= 0x5a
	order := []string{"c", "w", "s", "l", "e", "x", "B", "Bw", "Bs", "Bl", "Bh"}
	c.bytes["c"] = []byte("c\x00")
	c.bytes["w"] = []byte("\xffw")
	c.bytes["s"] = []byte("c")
	c.bytes["l"] = []byte("c\x00!")
	c.bytes["e"] = []byte{}
	c.bytes["x"] = []byte("content that is never served")
	c.bytes["B"] = big
	c.bytes["Bw"] = bw
	c.bytes["Bs"] = big[:len(big)-1]
	c.bytes["Bl"] = append(append([]byte(nil), big...), '!')
	c.bytes["Bh"] = big[:len(big)/2]
	for _, id := range order {
		b := c.bytes[id]
		h := sha256.Sum256(b)
		canon, ok := c.byHash[h]
		if !ok {
			c.byHash[h] = id
			canon = id
		}
		h5 := sha512.Sum512(b)
		h3 := sha512.Sum384(b)
		c.digOf[id] = map[string]string{
			"sha256": "sha256:" + hex.EncodeToString(h[:]),
			"sha512": "sha512:" + hex.EncodeToString(h5[:]),
			"sha384": "sha384:" + hex.EncodeToString(h3[:]),
		}
		for alg, d := range c.digOf[id] {
			if _, ok := c.byDig[d]; !ok {
				c.byDig[d] = [2]string{alg, canon}
			}
		}
	}
	return c
}

// idOf: which catalogue content these bytes are ("unknown" if none).
func (c *cfContents) idOf(b []byte) string {
	if id, ok := c.byHash[sha256.Sum256(b)]; ok {
		return id
	}
	return "unknown"
}

func (c *cfContents) descOf(d ociregistry.Descriptor) (alg, cont string) {
	if d.Digest == "" {
		return "", ""
	}
	if x, ok := c.byDig[string(d.Digest)]; ok {
		return x[0], x[1]
	}
	// a digest of bytes that are not in the catalogue: the algorithm is still legible
	if i := strings.IndexByte(string(d.Digest), ':'); i > 0 {
		if alg := string(d.Digest)[:i]; alg == "sha256" || alg == "sha384" || alg == "sha512" {
			return alg, "unknown"
		}
	}
	return "unknown", "unknown"
}

func cfClampN(v int64) int64 {
	if v > cfClamp {
		return cfClamp
	}
	if v < -cfClamp {
		return -cfClamp
	}
	return v
}

// ---------------------------------------------------------------- bodies
// cfBody serves data, then EOF or (cut) an error; an endless body serves filler up to a cap and
// then fails.  It counts what was consumed.
type cfBody struct {
	mu       sync.Mutex
	data     []byte
	pos      int
	cut      bool
	endless  bool
	consumed int64
	closed   bool
}

var errCfCut = errors.New("scripted body: connection reset by peer")

func (b *cfBody) Read(p []byte) (int, error) {
	b.mu.Lock()
	defer b.mu.Unlock()
	if len(p) == 0 {
		return 0, nil
	}
	if b.endless {
		if b.consumed >= cfEndlessCap {
			return 0, errCfCut
		}
		n := len(p)
		if int64(n) > cfEndlessCap-b.consumed {
			n = int(cfEndlessCap - b.consumed)
		}
		for i := 0; i < n; i++ {
			p[i] = 'a'
		}
		b.consumed += int64(n)
		return n, nil
	}
	if b.pos >= len(b.data) {
		if b.cut {
			return 0, errCfCut
		}
		return 0, io.EOF
	}
	n := copy(p, b.data[b.pos:])
	b.pos += n
	b.consumed += int64(n)
	return n, nil
}

func (b *cfBody) Close() error {
	b.mu.Lock()
	b.closed = true
	b.mu.Unlock()
	return nil
}

func (b *cfBody) used() int64 {
	b.mu.Lock()
	defer b.mu.Unlock()
	return b.consumed
}

// ---------------------------------------------------------------- rendering of abstract responses
func cfRaw(r *cfResp, key string) (string, bool) {
	if r.Raw == nil {
		return "", false
	}
	h, ok := r.Raw[key]
	if !ok {
		return "", false
	}
	b, err := hex.DecodeString(h)
	if err != nil {
		return "", false
	}
	return string(b), true
}

func cfItemName(k, j int) string { return fmt.Sprintf("n%02d-%05d", k, j) }

// cfNames: the item names of a listing page of n items, the k-th response.  fresh: names no other page has;
// repeat: the previous page once more; lastfirst: the previous page's last item, then fresh ones; back: the
// previous page backwards; start: the caller's startAfter argument first (else like lastfirst).
func cfNames(class string, k, n int, prev []string, start bool) []string {
	names := make([]string, n)
	for j := range names {
		names[j] = cfItemName(k, j)
	}
	if n == 0 {
		return names
	}
	switch class {
	case "repeat":
		copy(names, prev)
	case "back":
		for j := 0; j < n && j < len(prev); j++ {
			names[j] = prev[len(prev)-1-j]
		}
	case "start":
		if start {
			names[0] = cfStart
		} else if len(prev) > 0 {
			names[0] = prev[len(prev)-1]
		}
	case "lastfirst":
		if len(prev) > 0 {
			names[0] = prev[len(prev)-1]
		}
	}
	return names
}

func cfListJSON(call string, names []string) []byte {
	n := len(names)
	var buf bytes.Buffer
	switch call {
	case "Tags":
		buf.WriteString(`{"name":"` + cfRepo + `","tags":[`)
	case "Referrers":
		buf.WriteString(`{"schemaVersion":2,"mediaType":"application/vnd.oci.image.index.v1+json","manifests":[`)
	default:
		buf.WriteString(`{"repositories":[`)
	}
	for j := 0; j < n; j++ {
		if j > 0 {
			buf.WriteByte(',')
		}
		if call == "Referrers" {
			fmt.Fprintf(&buf, `{"mediaType":"application/vnd.oci.image.manifest.v1+json","digest":"%s","size":%d,"artifactType":"x/%s"}`,
				cfCat.digOf["c"]["sha256"], j, names[j])
		} else {
			buf.WriteString(`"` + names[j] + `"`)
		}
	}
	buf.WriteString(`]}`)
	return buf.Bytes()
}

// cfRender turns abstract response r, the k-th of the scenario, into header, content length and body.
func cfRender(r *cfResp, k int, call string) (http.Header, int64, *cfBody, int64) {
	h, cl, body, items, _ := cfRenderL(r, k, call, nil, false)
	return h, cl, body, items
}

// cfRenderL: prev are the item names of the previous listing page, start whether the caller gave a startAfter
// argument; also returns the names of this page's items (nil if it is no listing).
func cfRenderL(r *cfResp, k int, call string, prev []string, start bool) (http.Header, int64, *cfBody, int64, []string) {
	var names []string
	h := http.Header{}
	set := func(key, class, def string, rawKey string) {
		key = http.CanonicalHeaderKey(key)
		if v, ok := cfRaw(r, rawKey); ok {
			h[key] = []string{v}
			return
		}
		if class == "none" || class == "" {
			return
		}
		h[key] = []string{def}
	}
	locURL := fmt.Sprintf("/loc/%d", k)
	switch r.Loc {
	case "empty":
		set("Location", r.Loc, "", "loc")
	case "bad":
		set("Location", r.Loc, "%zz/\x7f", "loc")
	case "path":
		set("Location", r.Loc, locURL, "-")
	case "pathq":
		set("Location", r.Loc, locURL+"?x=y", "-")
	case "pathfq":
		set("Location", r.Loc, locURL+"?", "-")
	case "url":
		set("Location", r.Loc, "https://other.example"+locURL, "-")
	case "rel":
		set("Location", r.Loc, locURL[1:], "-")
	case "dup":
		h["Location"] = []string{locURL, "%zz"}
	case "rand":
		set("Location", r.Loc, "?", "loc")
	}
	switch r.Rf {
	case "empty":
		set("Range", r.Rf, "", "-")
	case "nodash":
		set("Range", r.Rf, "5", "rng")
	case "nonnum":
		set("Range", r.Rf, "0-x", "rng")
	case "num":
		set("Range", r.Rf, fmt.Sprintf("%d-%d", r.Ra, r.Rb), "-")
	}
	cl := r.Cl.val(cfThreshold)
	if cl >= 0 {
		h["Content-Length"] = []string{strconv.FormatInt(cl, 10)}
	}
	switch r.Dig {
	case "empty":
		set("Docker-Content-Digest", r.Dig, "", "-")
	case "bad":
		set("Docker-Content-Digest", r.Dig, "sha256:zz", "dig")
	case "ok":
		set("Docker-Content-Digest", r.Dig, cfCat.digOf[r.Hcont][r.Halg], "-")
	}
	switch r.Link {
	case "empty":
		set("Link", r.Link, "", "-")
	case "nolt":
		set("Link", r.Link, locURL+`>; rel="next"`, "link")
	case "nogt":
		set("Link", r.Link, "<"+locURL, "link")
	case "badurl":
		set("Link", r.Link, `<%zz>; rel="next"`, "link")
	case "ok":
		set("Link", r.Link, "<"+locURL+`>; rel="next"`, "-")
	case "rand":
		set("Link", r.Link, "?", "link")
	}
	switch r.Auth {
	case "bearer":
		h["Www-Authenticate"] = []string{`Bearer realm="https://auth.example/token",service="registry.test",scope="repository:foo/bar:pull,push"`}
	case "basic":
		h["Www-Authenticate"] = []string{`Basic realm="registry"`}
	}
	switch r.Ctype {
	case "json":
		set("Content-Type", r.Ctype, "application/json", "ctype")
	case "jsonp":
		set("Content-Type", r.Ctype, "application/vnd.x+json; charset=utf-8", "ctype")
	case "text":
		set("Content-Type", r.Ctype, "text/plain", "ctype")
	case "bad":
		set("Content-Type", r.Ctype, ";;;=", "ctype")
	case "manifest":
		set("Content-Type", r.Ctype, "application/vnd.oci.image.manifest.v1+json", "ctype")
	case "octet":
		set("Content-Type", r.Ctype, "application/octet-stream", "ctype")
	case "rand":
		set("Content-Type", r.Ctype, "?", "ctype")
	}
	mv := r.Mv.val(0)
	if r.Mv.T > 0 {
		mv = math.MaxInt64 - 7 + r.Mv.K // "huge"
	}
	switch r.Mf {
	case "bad":
		set("OCI-Chunk-Min-Length", r.Mf, "abc", "minlen")
	case "num":
		set("OCI-Chunk-Min-Length", r.Mf, strconv.FormatInt(mv, 10), "-")
	}
	switch r.Crf {
	case "noslash":
		set("Content-Range", r.Crf, "bytes 0-0", "crange")
	case "badnum":
		set("Content-Range", r.Crf, "bytes 0-0/*", "crange")
	case "ok":
		set("Content-Range", r.Crf, fmt.Sprintf("bytes 0-0/%d", r.Crtot), "-")
	}
	items := r.Items.val(int64(ociclient.DefaultListPageSize))
	body := &cfBody{cut: r.Bend == "cut"}
	if raw, ok := cfRaw(r, "body"); ok {
		body.data = []byte(raw)
	} else {
		switch r.Body {
		case "blob":
			body.data = cfCat.bytes[r.Bcont]
		case "list":
			names = cfNames(r.Inames, k, int(items), prev, start)
			body.data = cfListJSON(call, names)
		case "wszero":
			switch k % 3 {
			case 0:
				body.data = []byte(`{}`)
			case 1:
				body.data = []byte(`null`)
			default:
				if call == "Repositories" {
					body.data = []byte(`{"name":"x","tags":["a","b"],"manifests":[]}`)
				} else {
					body.data = []byte(`{"repositories":["a","b"]}`)
				}
			}
		case "wserr":
			body.data = []byte(`{"repositories":"x","tags":7,"manifests":{"a":1}}`)
		case "trunc":
			full := cfListJSON(call, cfNames("fresh", k, 3, nil, false))
			body.data = full[:len(full)/2]
		case "garbage":
			body.data = []byte("\x00\xff\xfe<html>not json</html>")
		case "errjson":
			code := r.Ecode
			if code == "" {
				code = "NAME_UNKNOWN"
			}
			cj, _ := json.Marshal(code)
			body.data = []byte(`{"errors":[{"code":` + string(cj) + `,"message":"scripted","detail":{"k":` + strconv.Itoa(k) + `}}]}`)
		case "wsjson":
			body.data = []byte(`{"errors":[]}`)
		case "wsarr":
			body.data = []byte(`[1,2,3]`)
		case "huge":
			body.data = []byte(`{"errors":[{"code":"UNKNOWN","message":"` + strings.Repeat("m", 3*cfErrLimit) + `"}]}`)
		case "endless":
			body.endless = true
			body.cut = true
		case "empty", "":
		}
	}
	return h, cl, body, items, names
}

// ---------------------------------------------------------------- the scripted transport
type cfExchange struct {
	q    ev
	r    ev
	body *cfBody
}

type cfTransport struct {
	mu       sync.Mutex
	script   []cfResp
	served   int // responses served (also numbers them: the k-th response of the scenario)
	call     string
	wantDig  string
	lastItem map[string]int // last item name of a listing response -> its number (of the latest page ending with it)
	prev     []string       // item names of the previous listing page
	start    bool           // the call in progress has a startAfter argument
	exch     []cfExchange
	stuck    chan struct{}
	overrun  int
}

var (
	cfLocRe    = regexp.MustCompile(`/loc/(\d+)$`)
	cfRangeRe  = regexp.MustCompile(`^bytes=(-?\d+)-(-?\d*)$`)
	cfCRangeRe = regexp.MustCompile(`^(-?\d+)-(-?\d+)$`)
)

func (t *cfTransport) classify(req *http.Request) ev {
	q := ev{"m": req.Method, "p": "other", "ref": "", "li": 0, "host": "same", "xq": false, "dq": "none", "mq": false,
		"n": -2, "last": -2, "rk": "none", "r0": 0, "r1": 0, "crp": false, "cr0": 0, "cr1": 0, "clen": cfClampN(req.ContentLength),
		"url": cfTrunc(req.URL.String(), 200)}
	if req.URL.Host != cfHost {
		q["host"] = "other"
	}
	p := req.URL.Path
	pre := "/v2/" + cfRepo
	refKind := func(s string) string {
		if strings.Contains(s, ":") {
			return "digest"
		}
		return "tag"
	}
	switch {
	case cfLocRe.MatchString(p):
		m := cfLocRe.FindStringSubmatch(p)
		q["p"] = "loc"
		li, _ := strconv.Atoi(m[1])
		q["li"] = li
	case p == "/v2/_catalog":
		q["p"] = "catalog"
	case p == pre+"/tags/list":
		q["p"] = "tags"
	case p == pre+"/blobs/uploads/":
		q["p"] = "uploads"
	case strings.HasPrefix(p, pre+"/blobs/"):
		q["p"] = "blob"
		q["ref"] = refKind(p[len(pre+"/blobs/"):])
	case strings.HasPrefix(p, pre+"/manifests/"):
		q["p"] = "manifest"
		q["ref"] = refKind(p[len(pre+"/manifests/"):])
	case strings.HasPrefix(p, pre+"/referrers/"):
		q["p"] = "referrers"
		q["ref"] = refKind(p[len(pre+"/referrers/"):])
	}
	qs := req.URL.Query()
	if v, ok := qs["n"]; ok {
		if n, err := strconv.Atoi(v[0]); err == nil {
			q["n"] = int(cfClampN(int64(n)))
		} else {
			q["n"] = -3
		}
	}
	if v, ok := qs["last"]; ok {
		if k, ok := t.lastItem[v[0]]; ok {
			q["last"] = k
		} else if v[0] == cfStart {
			q["last"] = -1
		} else {
			q["last"] = -3
		}
	}
	if v, ok := qs["digest"]; ok {
		if v[0] == t.wantDig {
			q["dq"] = "want"
		} else {
			q["dq"] = "other"
		}
	}
	_, q["xq"] = qs["x"]
	_, q["mq"] = qs["mount"]
	if rg := req.Header.Get("Range"); rg != "" {
		if m := cfRangeRe.FindStringSubmatch(rg); m != nil {
			a, _ := strconv.ParseInt(m[1], 10, 64)
			q["r0"] = cfClampN(a)
			if m[2] == "" {
				q["rk"] = "from"
			} else {
				b, _ := strconv.ParseInt(m[2], 10, 64)
				q["rk"] = "closed"
				q["r1"] = cfClampN(b)
			}
		} else {
			q["rk"] = "other"
		}
	}
	if cr := req.Header.Get("Content-Range"); cr != "" {
		q["crp"] = true
		if m := cfCRangeRe.FindStringSubmatch(cr); m != nil {
			a, _ := strconv.ParseInt(m[1], 10, 64)
			b, _ := strconv.ParseInt(m[2], 10, 64)
			q["cr0"], q["cr1"] = cfClampN(a), cfClampN(b)
		} else {
			q["cr0"], q["cr1"] = -99, -99
		}
	}
	return q
}

var errCfNet = errors.New("scripted transport: connection refused (script used up or scripted failure)")

func (t *cfTransport) RoundTrip(req *http.Request) (*http.Response, error) {
	// the request body is taken off the wire as a real transport would
	if req.Body != nil {
		io.Copy(io.Discard, req.Body)
		req.Body.Close()
	}
	t.mu.Lock()
	q := t.classify(req)
	var r cfResp
	if t.served < len(t.script) {
		r = t.script[t.served]
	} else {
		r = cfResp{Code: cfNetErr, Loc: "none", Rf: "none", Dig: "none", Link: "none", Ctype: "none", Mf: "none", Crf: "none", Body: "empty", Bcont: "e", Bend: "eof"}
		t.overrun++
		if t.overrun > 60 {
			// the client keeps asking although every answer is a terminal failure: leave it to the watchdog
			t.mu.Unlock()
			<-t.stuck
			return nil, errCfNet
		}
	}
	t.served++
	k := t.served
	if r.Code == cfNetErr {
		t.exch = append(t.exch, cfExchange{q: q, r: cfLogResp(&r, 0, 0, "e", 0, 0)})
		t.mu.Unlock()
		return nil, errCfNet
	}
	h, cl, body, items, names := cfRenderL(&r, k, t.call, t.prev, t.start)
	if len(names) > 0 {
		t.lastItem[names[len(names)-1]] = k
		t.prev = names
	}
	blen := int64(len(body.data))
	bcont := "-"
	if body.endless {
		blen = cfEndlessCap
		bcont = "unknown"
	} else {
		bcont = cfCat.idOf(body.data)
	}
	lr := cfLogResp(&r, cl, blen, bcont, items, r.Mv.val(0))
	if r.Mv.T > 0 {
		lr["mv"], lr["mvt"], lr["mvk"] = cfClamp, r.Mv.T, r.Mv.K
	}
	if body.endless {
		lr["bend"] = "cut"
	}
	t.exch = append(t.exch, cfExchange{q: q, r: lr, body: body})
	t.mu.Unlock()
	if r.Bend == "trunc" {
		resp, err := cfWire(req, r.Code, h, body.data)
		if err != nil {
			panic(fmt.Sprintf("harness: response %d cannot be rendered on the wire: %v", k, err))
		}
		resp.Body = &cfCounting{rc: resp.Body, body: body}
		return resp, nil
	}
	return &http.Response{
		Status:        fmt.Sprintf("%d scripted", r.Code),
		StatusCode:    r.Code,
		Proto:         "HTTP/1.1",
		ProtoMajor:    1,
		ProtoMinor:    1,
		Header:        h,
		Body:          body,
		ContentLength: cl,
		Request:       req,
	}, nil
}

// cfWire sends the response through net/http's own HTTP/1.1 response parser: status line, the
// rendered headers (Content-Length as announced), the body bytes, and then the connection
// closes.  What the client gets is what a real transport hands it for such a wire image: in
// particular a body that stops before its Content-Length ends in io.ErrUnexpectedEOF.
func cfWire(req *http.Request, code int, h http.Header, data []byte) (*http.Response, error) {
	var buf bytes.Buffer
	fmt.Fprintf(&buf, "HTTP/1.1 %03d scripted\r\n", code)
	for k, vs := range h {
		for _, v := range vs {
			fmt.Fprintf(&buf, "%s: %s\r\n", k, v)
		}
	}
	buf.WriteString("\r\n")
	buf.Write(data)
	return http.ReadResponse(bufio.NewReader(bytes.NewReader(buf.Bytes())), req)
}

// cfCounting counts the body bytes of a wire-rendered response handed to the client.
type cfCounting struct {
	rc   io.ReadCloser
	body *cfBody
}

func (c *cfCounting) Read(p []byte) (int, error) {
	n, err := c.rc.Read(p)
	c.body.mu.Lock()
	c.body.consumed += int64(n)
	c.body.mu.Unlock()
	return n, err
}

func (c *cfCounting) Close() error { return c.rc.Close() }

// cfLogResp: the response as logged (concrete numbers; every field the specification reads).
func cfLogResp(r *cfResp, cl, blen int64, bcont string, items int64, mv int64) ev {
	e := ev{"code": r.Code, "loc": r.Loc, "rf": r.Rf, "ra": cfClampN(r.Ra), "rb": cfClampN(r.Rb), "cl": cfClampN(cl), "dig": r.Dig,
		"halg": r.Halg, "hcont": r.Hcont, "link": r.Link, "ctype": r.Ctype, "mf": r.Mf, "mv": cfClampN(mv), "crf": r.Crf,
		"crtot": cfClampN(r.Crtot), "body": r.Body, "blen": blen, "bcont": bcont, "bend": r.Bend, "items": items, "ecode": r.Ecode, "inames": r.Inames, "auth": r.Auth}
	if r.Bend == "" {
		e["bend"] = "eof"
	}
	if len(r.Raw) > 0 {
		e["raw"] = r.Raw
	}
	return e
}

// cfFrames: the source positions inside the code under test of a panic's stack (stable across runs).
func cfFrames(stack string) string {
	var out []string
	for _, l := range strings.Split(stack, "\n") {
		l = strings.TrimSpace(l)
		if i := strings.Index(l, "/ociregistry/"); i >= 0 && strings.Contains(l, ".go:") {
			if j := strings.IndexByte(l[i:], ' '); j > 0 {
				l = l[:i+j]
			}
			out = append(out, l[i+1:])
		}
	}
	return cfTrunc(strings.Join(out, " < "), 600)
}

func cfTrunc(s string, n int) string {
	s = strings.ToValidUTF8(s, "?")
	if len(s) > n {
		return s[:n] + "..."
	}
	return s
}

// ---------------------------------------------------------------- running a scenario
type cfRunner struct {
	enc     *json.Encoder
	timeout time.Duration
	calls   int
	reqs    int
	panics  int
	hangs   int
}

type cfOutcome struct {
	ok              bool
	n               int64
	alg, cont       string
	size            int64
	err             string
	panicMsg, stack string
}

func cfErrStr(err error) string {
	if err == nil {
		return ""
	}
	return cfTrunc(err.Error(), 160)
}

// run executes one scenario.  Events: reset, then per call: call, rt*, ret | panic | timeout.
func (rn *cfRunner) run(id int, s *cfScenario) {
	tr := &cfTransport{script: s.script, lastItem: map[string]int{}, stuck: make(chan struct{}), wantDig: cfCat.digOf["c"]["sha256"]}
	defer close(tr.stuck)
	rn.enc.Encode(ev{"op": "reset", "id": id, "ps": s.PS, "src": s.src})
	reg, err := ociclient.New(cfHost, &ociclient.Options{Transport: tr, ListPageSize: s.PS})
	if err != nil {
		rn.enc.Encode(ev{"op": "panic", "msg": "ociclient.New: " + err.Error()})
		return
	}
	ctx := context.Background()
	var w ociregistry.BlobWriter
	var rd ociregistry.BlobReader
	wantDigest := ociregistry.Digest(tr.wantDig)
	for _, c := range s.calls {
		c := c
		tr.mu.Lock()
		tr.call = c.Name
		tr.start = c.Start
		tr.exch = nil
		tr.mu.Unlock()
		content := cfCat.bytes["c"]
		if c.Csize == 0 {
			content = nil
		}
		do := func() (o cfOutcome) {
			setDesc := func(d ociregistry.Descriptor, err error) {
				o.ok, o.err = err == nil, cfErrStr(err)
				o.alg, o.cont = cfCat.descOf(d)
				o.size = d.Size
			}
			setReader := func(r ociregistry.BlobReader, err error) {
				o.ok, o.err = err == nil, cfErrStr(err)
				if err == nil {
					rd = r
					d := r.Descriptor()
					o.alg, o.cont = cfCat.descOf(d)
					o.size = d.Size
				}
			}
			setWriter := func(bw ociregistry.BlobWriter, err error) {
				o.ok, o.err = err == nil, cfErrStr(err)
				if err == nil {
					w = bw
					o.size = int64(bw.ChunkSize())
				}
			}
			iterate := func(next func(yield func(error) bool)) {
				o.ok = true
				next(func(err error) bool {
					if err != nil {
						o.ok, o.err = false, cfErrStr(err)
						return true
					}
					o.n++
					return !(c.Take > 0 && o.n >= int64(c.Take))
				})
			}
			start := ""
			if c.Start {
				start = cfStart
			}
			switch c.Name {
			case "ResolveBlob":
				setDesc(reg.ResolveBlob(ctx, cfRepo, wantDigest))
			case "ResolveManifest":
				setDesc(reg.ResolveManifest(ctx, cfRepo, wantDigest))
			case "ResolveTag":
				setDesc(reg.ResolveTag(ctx, cfRepo, cfTag))
			case "GetBlob":
				setReader(reg.GetBlob(ctx, cfRepo, wantDigest))
			case "GetManifest":
				setReader(reg.GetManifest(ctx, cfRepo, wantDigest))
			case "GetTag":
				setReader(reg.GetTag(ctx, cfRepo, cfTag))
			case "GetBlobRange":
				setReader(reg.GetBlobRange(ctx, cfRepo, wantDigest, c.O0, c.O1))
			case "DeleteBlob":
				err := reg.DeleteBlob(ctx, cfRepo, wantDigest)
				o.ok, o.err = err == nil, cfErrStr(err)
			case "DeleteManifest":
				err := reg.DeleteManifest(ctx, cfRepo, wantDigest)
				o.ok, o.err = err == nil, cfErrStr(err)
			case "DeleteTag":
				err := reg.DeleteTag(ctx, cfRepo, cfTag)
				o.ok, o.err = err == nil, cfErrStr(err)
			case "MountBlob":
				setDesc(reg.MountBlob(ctx, "other/repo", cfRepo, wantDigest))
			case "PushManifest":
				tag, mt := "", "application/vnd.oci.image.manifest.v1+json"
				if c.Ref == "tag" {
					tag = cfTag
				}
				if !c.Mt {
					mt = ""
				}
				setDesc(reg.PushManifest(ctx, cfRepo, tag, cfCat.bytes["c"], mt))
			case "PushBlob":
				d := ociregistry.Descriptor{Digest: wantDigest, Size: int64(len(content)), MediaType: "application/octet-stream"}
				// the content is streamed from a plain io.Reader (not a bytes/strings reader net/http could rewind)
				setDesc(reg.PushBlob(ctx, cfRepo, d, struct{ io.Reader }{bytes.NewReader(content)}))
			case "PushBlobChunked":
				setWriter(reg.PushBlobChunked(ctx, cfRepo, c.Hint))
			case "Resume":
				id := map[string]string{"path": "/loc/0", "url": "https://other.example/loc/0", "rel": "loc/0", "bad": "%zz", "empty": ""}[c.Idform]
				setWriter(reg.PushBlobChunkedResume(ctx, cfRepo, id, c.Off, c.Hint))
			case "Write":
				n, err := w.Write(bytes.Repeat([]byte{'d'}, c.Wlen))
				o.ok, o.err, o.n = err == nil, cfErrStr(err), int64(n)
			case "Close":
				err := w.Close()
				o.ok, o.err = err == nil, cfErrStr(err)
			case "Size":
				o.ok, o.n = true, w.Size()
			case "Commit":
				dg := wantDigest
				if c.Dg == "empty" {
					dg = ""
				}
				setDesc(w.Commit(dg))
			case "ReadAll":
				data, err := io.ReadAll(rd)
				rd.Close()
				rd = nil
				o.ok, o.err, o.n = err == nil, cfErrStr(err), int64(len(data)) // io.ReadAll: nil = the stream ended in a clean EOF
				o.cont, o.size = cfCat.idOf(data), int64(len(data))
			case "Repositories":
				it := reg.Repositories(ctx, start)
				iterate(func(y func(error) bool) { it(func(_ string, err error) bool { return y(err) }) })
			case "Tags":
				it := reg.Tags(ctx, cfRepo, start)
				iterate(func(y func(error) bool) { it(func(_ string, err error) bool { return y(err) }) })
			case "Referrers":
				it := reg.Referrers(ctx, cfRepo, wantDigest, "")
				iterate(func(y func(error) bool) { it(func(_ ociregistry.Descriptor, err error) bool { return y(err) }) })
			default:
				o.panicMsg = "harness: unknown call " + c.Name
			}
			return o
		}
		// a call the scenario cannot make (no writer / reader at hand) ends the scenario
		if (c.Name == "Write" || c.Name == "Close" || c.Name == "Size" || c.Name == "Commit") && w == nil {
			return
		}
		if c.Name == "ReadAll" && rd == nil {
			return
		}
		done := make(chan cfOutcome, 1)
		go func() {
			defer func() {
				if p := recover(); p != nil {
					done <- cfOutcome{panicMsg: cfTrunc(fmt.Sprint(p), 300), stack: cfFrames(string(debug.Stack()))}
				}
			}()
			done <- do()
		}()
		var o cfOutcome
		timedOut := false
		select {
		case o = <-done:
		case <-time.After(rn.timeout):
			timedOut = true
		}
		rn.calls++
		cj, _ := json.Marshal(c)
		var ce ev
		json.Unmarshal(cj, &ce)
		ce["op"] = "call"
		rn.enc.Encode(ce)
		tr.mu.Lock()
		exch := tr.exch
		tr.mu.Unlock()
		for _, x := range exch {
			consumed := int64(0)
			if x.body != nil {
				consumed = x.body.used()
			}
			rn.reqs++
			rn.enc.Encode(ev{"op": "rt", "q": x.q, "r": x.r, "consumed": consumed})
		}
		switch {
		case timedOut:
			rn.hangs++
			// the scripted transport never blocks: a call that has not returned by now hangs.  Its goroutine is
			// left behind; the next scenario gets a fresh client.
			rn.enc.Encode(ev{"op": "hang", "name": c.Name, "requests": len(exch), "msg": fmt.Sprintf("no return within %v after %d requests", rn.timeout, len(exch))})
			return
		case o.panicMsg != "":
			rn.panics++
			rn.enc.Encode(ev{"op": "panic", "name": c.Name, "msg": o.panicMsg, "stack": o.stack})
			return
		}
		rn.enc.Encode(ev{"op": "ret", "name": c.Name, "ok": o.ok, "n": cfClampN(o.n), "alg": o.alg, "cont": o.cont, "size": cfClampN(o.size), "err": o.err})
	}
}

// ---------------------------------------------------------------- seeded-random scenarios
func cfHex(s string) string { return hex.EncodeToString([]byte(s)) }

func cfRandBytes(rnd *rand.Rand, kind int) string {
	switch kind % 6 {
	case 0: // printable
		n := rnd.Intn(12)
		b := make([]byte, n)
		for i := range b {
			b[i] = byte(32 + rnd.Intn(95))
		}
		return string(b)
	case 1: // any bytes, invalid UTF-8 included
		n := rnd.Intn(40)
		b := make([]byte, n)
		for i := range b {
			b[i] = byte(rnd.Intn(256))
		}
		return string(b)
	case 2: // very long
		return strings.Repeat(string(rune('a'+rnd.Intn(26))), 5000+rnd.Intn(30000))
	case 3: // JSON-ish fragments
		fr := []string{`{`, `}`, `[`, `]`, `"errors"`, `:`, `,`, `null`, `1e999`, `"\ud800"`, `{"errors":null}`, `[[[[[[`, `{"a":{"a":{"a":{}}}}`, ` `, `"`, `\`}
		var sb strings.Builder
		for i := rnd.Intn(8); i >= 0; i-- {
			sb.WriteString(fr[rnd.Intn(len(fr))])
		}
		return sb.String()
	case 4: // header-ish
		fr := []string{`<`, `>`, `;`, `rel="next"`, `/`, `%`, `zz`, `?`, `#`, `:`, `//`, `bytes`, `=`, `-`, `0`, `9`, `*`, ` `, "\t", "\x00", `..`, `@`, `[`, `sha256`}
		var sb strings.Builder
		for i := rnd.Intn(8); i >= 0; i-- {
			sb.WriteString(fr[rnd.Intn(len(fr))])
		}
		return sb.String()
	default:
		return strings.Repeat("\xff\xfe", rnd.Intn(5))
	}
}

func cfAlnum(rnd *rand.Rand) string {
	n := 1 + rnd.Intn(8)
	b := make([]byte, n)
	for i := range b {
		b[i] = "abcxyz0189"[rnd.Intn(10)]
	}
	return string(b)
}

func cfPick(rnd *rand.Rand, xs ...string) string { return xs[rnd.Intn(len(xs))] }

// cfOddCodes: statuses outside the success path, the ones clients special-case included.
var cfOddCodes = []int{100, 101, 102, 103, 199, 400, 401, 401, 402, 403, 404, 405, 406, 407, 408, 409, 410, 411, 412, 413, 414, 415, 416, 417, 417, 418,
	421, 422, 423, 424, 425, 426, 428, 429, 431, 451, 500, 501, 502, 503, 504, 505, 506, 507, 508, 510, 511, 599, 0, 600, 999}

// cfErrCodes: every standard OCI error code (taken from the package under test), and some that are none.
var cfErrCodes = []string{
	ociregistry.ErrBlobUnknown.Code(), ociregistry.ErrBlobUploadInvalid.Code(), ociregistry.ErrBlobUploadUnknown.Code(),
	ociregistry.ErrDigestInvalid.Code(), ociregistry.ErrManifestBlobUnknown.Code(), ociregistry.ErrManifestInvalid.Code(),
	ociregistry.ErrManifestUnknown.Code(), ociregistry.ErrNameInvalid.Code(), ociregistry.ErrNameUnknown.Code(),
	ociregistry.ErrSizeInvalid.Code(), ociregistry.ErrUnauthorized.Code(), ociregistry.ErrDenied.Code(),
	ociregistry.ErrUnsupported.Code(), ociregistry.ErrTooManyRequests.Code(), ociregistry.ErrRangeInvalid.Code(),
	"UNKNOWN", "NOT_A_CODE", "blob_upload_unknown", "",
}

func cfRandResp(rnd *rand.Rand, call string) cfResp {
	r := cfResp{Loc: "none", Rf: "none", Dig: "none", Link: "none", Ctype: "none", Mf: "none", Crf: "none", Body: "empty", Bcont: "e", Bend: "eof", Raw: map[string]string{}}
	raw := func(key, v string) { r.Raw[key] = cfHex(v) }
	// status
	likely := map[string][]int{"PushBlob": {202, 201}, "PushBlobChunked": {202}, "Resume": {204}, "Write": {202}, "Close": {202}, "Commit": {201},
		"MountBlob": {201, 202}, "PushManifest": {201}, "DeleteBlob": {202}, "DeleteManifest": {202}, "DeleteTag": {202}, "GetBlobRange": {200, 206}}
	switch x := rnd.Intn(100); {
	case x < 55:
		l := likely[call]
		if l == nil {
			l = []int{200}
		}
		r.Code = l[rnd.Intn(len(l))]
	case x < 62:
		r.Code = []int{200, 201, 202, 204, 206, 203, 226}[rnd.Intn(7)]
	case x < 72:
		r.Code = []int{301, 302, 303, 307, 308, 300, 304, 305, 306}[rnd.Intn(9)]
	case x < 96:
		r.Code = cfOddCodes[rnd.Intn(len(cfOddCodes))]
		if r.Code == 401 || rnd.Intn(10) == 0 {
			r.Auth = cfPick(rnd, "bearer", "basic", "none")
		}
	default:
		r.Code = cfNetErr
	}
	// Location
	switch r.Loc = cfPick(rnd, "none", "none", "empty", "bad", "path", "path", "path", "pathq", "pathfq", "url", "rel", "dup", "rand"); r.Loc {
	case "bad":
		raw("loc", cfPick(rnd, "%zz", "http://[", "\x7f", "%z")+cfAlnum(rnd))
	case "rand":
		raw("loc", cfRandBytes(rnd, rnd.Intn(6)))
	}
	// Range
	switch r.Rf = cfPick(rnd, "none", "empty", "nodash", "nonnum", "num", "num", "num"); r.Rf {
	case "nodash":
		raw("rng", strings.ReplaceAll(cfRandBytes(rnd, rnd.Intn(2)), "-", "_"))
	case "nonnum":
		raw("rng", cfPick(rnd, "x", "0x1", " 1", "1.5", "")+cfPick(rnd, "-", "-", "--x")+cfPick(rnd, "y", "4 ", "1e3", "", "2-3"))
		if v, _ := cfRaw(&r, "rng"); v == "-" || v == "" {
			raw("rng", "a-b")
		}
	case "num":
		r.Ra = []int64{0, 0, 0, 0, 1, 2, -1, 1000000}[rnd.Intn(8)]
		r.Rb = []int64{0, 0, 1, 3, 4, 7, -3, -1, 65535, 1000000}[rnd.Intn(10)]
	}
	// Docker-Content-Digest
	switch r.Dig = cfPick(rnd, "none", "none", "empty", "bad", "ok", "ok", "ok"); r.Dig {
	case "bad":
		raw("dig", cfPick(rnd, "sha256:"+cfAlnum(rnd), "md5:d41d8cd98f00b204e9800998ecf8427e", strings.ToUpper(cfCat.digOf["c"]["sha256"]),
			"sha256:"+strings.Repeat("G", 64), cfCat.digOf["c"]["sha256"]+"0", "sha256", ":", cfRandBytes(rnd, 1)+"!", strings.Repeat("sha256:", 4000),
			"sha256+b64:"+cfAlnum(rnd), " "+cfCat.digOf["c"]["sha256"]))
	case "ok":
		r.Halg = cfPick(rnd, "sha256", "sha256", "sha512", "sha384")
		r.Hcont = cfPick(rnd, "c", "c", "w", "s", "l", "e", "x", "B", "Bw")
	}
	// Link
	switch r.Link = cfPick(rnd, "none", "none", "empty", "nolt", "nogt", "badurl", "ok", "ok", "ok", "rand"); r.Link {
	case "nolt":
		raw("link", "x"+cfRandBytes(rnd, 4))
	case "nogt":
		raw("link", "<"+strings.ReplaceAll(cfRandBytes(rnd, rnd.Intn(2)), ">", "_"))
	case "badurl":
		raw("link", "<"+cfPick(rnd, "%zz", "http://[", "\x7f")+cfAlnum(rnd)+">"+cfRandBytes(rnd, 4))
	case "rand":
		raw("link", cfPick(rnd, "<", "")+cfRandBytes(rnd, rnd.Intn(6))+cfPick(rnd, ">", ""))
	}
	// Content-Type
	if r.Ctype = cfPick(rnd, "none", "json", "json", "jsonp", "text", "bad", "manifest", "octet", "rand"); r.Ctype == "rand" {
		raw("ctype", cfRandBytes(rnd, rnd.Intn(6)))
	}
	// OCI-Chunk-Min-Length
	switch r.Mf = cfPick(rnd, "none", "none", "bad", "num", "num"); r.Mf {
	case "bad":
		raw("minlen", cfPick(rnd, "x", "1.5", " 3", "3 ", "0x10", "", "99999999999999999999999")+cfPick(rnd, "", "q"))
		if v, _ := cfRaw(&r, "minlen"); v == "" {
			r.Mf = "none"
			delete(r.Raw, "minlen")
		}
	case "num":
		if rnd.Intn(5) == 0 {
			r.Mv = cfNum{T: 1, K: int64(rnd.Intn(7))}
		} else {
			r.Mv = cfNum{K: []int64{-5, 0, 1, 2, 3, 5, 8, 100}[rnd.Intn(8)]}
		}
	}
	// Content-Range
	switch r.Crf = cfPick(rnd, "none", "noslash", "badnum", "ok", "ok", "ok"); r.Crf {
	case "noslash":
		raw("crange", strings.ReplaceAll(cfRandBytes(rnd, rnd.Intn(2)), "/", "_"))
		if v, _ := cfRaw(&r, "crange"); v == "" {
			raw("crange", "bytes")
		}
	case "badnum":
		raw("crange", cfRandBytes(rnd, 0)+"/"+cfPick(rnd, "*", "x", "", "1.5", " 2", "2 ", "99999999999999999999"))
	case "ok":
		r.Crtot = []int64{0, 1, 2, 3, 5, -7, 1000000}[rnd.Intn(7)]
	}
	// body
	r.Body = cfPick(rnd, "blob", "blob", "blob", "list", "list", "list", "wszero", "wserr", "empty", "trunc", "garbage", "errjson", "wsjson", "wsarr", "huge", "endless", "rand", "rand")
	switch r.Body {
	case "blob":
		r.Bcont = cfPick(rnd, "c", "c", "c", "w", "s", "l", "e", "B", "B", "Bw", "Bs", "Bl")
		if rnd.Intn(6) == 0 {
			r.Bcont = "unknown"
			raw("body", cfRandBytes(rnd, rnd.Intn(6)))
		}
	case "list":
		r.Items = cfNum{K: []int64{0, 1, 2, 3, 4, 999, 1000, 1001, 2000}[rnd.Intn(9)]}
		r.Inames = cfPick(rnd, "fresh", "fresh", "repeat", "lastfirst", "back", "start")
	case "errjson":
		r.Ecode = cfErrCodes[rnd.Intn(len(cfErrCodes))]
	case "rand":
		raw("body", cfRandBytes(rnd, rnd.Intn(6)))
	}
	if rnd.Intn(5) == 0 && r.Body != "endless" {
		r.Bend = "cut"
	}
	// Content-Length: around the length of the body, or any
	_, _, body, _ := cfRender(&r, 1, call)
	bl := int64(len(body.data))
	r.Cl = cfNum{K: []int64{bl, bl, bl, bl, bl - 1, bl + 1, -1, -1, 0, 1, 2, 3, cfThreshold, cfThreshold + 1, 1000000}[rnd.Intn(15)]}
	if r.Cl.K < -1 {
		r.Cl.K = -1
	}
	if len(r.Raw) == 0 {
		r.Raw = nil
	}
	return r
}

// cfNearFine: a response that lets the operation proceed, with one group of fields taken from
// a random response (so that the later steps of multi-request operations are reached too).
func cfNearFine(rnd *rand.Rand, call string) cfResp {
	x := cfRandResp(rnd, call)
	r := cfResp{Loc: cfPick(rnd, "path", "path", "pathq", "url", "rel", "pathfq", "dup"), Rf: "num", Rb: int64(rnd.Intn(4)), Dig: "none", Link: "none",
		Ctype: "json", Mf: "none", Crf: "ok", Crtot: 2, Body: "empty", Bcont: "e", Bend: "eof", Raw: map[string]string{}}
	codes := map[string]int{"PushBlob": 202, "PushBlobChunked": 202, "Resume": 204, "Write": 202, "Close": 202, "Commit": 201, "MountBlob": 201,
		"PushManifest": 201, "DeleteBlob": 202, "DeleteManifest": 202, "DeleteTag": 202, "GetBlobRange": 206}
	r.Code = codes[call]
	if r.Code == 0 {
		r.Code = 200
	}
	if call == "PushBlob" && rnd.Intn(2) == 0 {
		r.Code = 201
	}
	switch call {
	case "GetBlob", "GetManifest", "GetTag", "GetBlobRange", "ResolveBlob", "ResolveManifest", "ResolveTag":
		r.Body, r.Bcont = "blob", cfPick(rnd, "c", "c", "c", "B", "w", "s", "l")
		r.Cl = cfNum{K: int64(len(cfCat.bytes[r.Bcont]))}
		if rnd.Intn(3) > 0 {
			r.Dig, r.Halg, r.Hcont = "ok", cfPick(rnd, "sha256", "sha512"), cfPick(rnd, r.Bcont, r.Bcont, "c")
		}
	case "Repositories", "Tags", "Referrers":
		r.Body = "list"
		r.Items = cfNum{K: []int64{0, 1, 1, 2, 2, 3, 999, 1000, 1001}[rnd.Intn(9)]}
		r.Link = cfPick(rnd, "none", "ok")
		r.Inames = cfPick(rnd, "fresh", "repeat", "lastfirst", "back", "start")
	}
	copyRaw := func(keys ...string) {
		for _, k := range keys {
			if v, ok := x.Raw[k]; ok {
				r.Raw[k] = v
			}
		}
	}
	switch rnd.Intn(14) {
	case 10, 11:
		// a well-formed OCI error, of any code, under a status that matches the code or does not
		r.Code = []int{400, 401, 403, 404, 404, 405, 416, 429, 500, 503}[rnd.Intn(10)]
		r.Ctype, r.Body, r.Ecode = cfPick(rnd, "json", "json", "jsonp"), "errjson", cfErrCodes[rnd.Intn(len(cfErrCodes))]
	case 0:
		r.Code = x.Code
	case 1:
		r.Loc = x.Loc
		copyRaw("loc")
	case 2:
		r.Rf, r.Ra, r.Rb = x.Rf, x.Ra, x.Rb
		copyRaw("rng")
	case 3:
		r.Dig, r.Halg, r.Hcont = x.Dig, x.Halg, x.Hcont
		copyRaw("dig")
	case 4:
		r.Link = x.Link
		copyRaw("link")
	case 5:
		r.Mf, r.Mv = x.Mf, x.Mv
		copyRaw("minlen")
	case 6:
		r.Crf, r.Crtot = x.Crf, x.Crtot
		copyRaw("crange")
	case 7:
		r.Body, r.Bcont, r.Items, r.Bend = x.Body, x.Bcont, x.Items, x.Bend
		copyRaw("body")
	case 8:
		r.Cl = x.Cl
	case 9:
		r.Bend = "cut"
	}
	if len(r.Raw) == 0 {
		r.Raw = nil
		if r.Code >= 200 && r.Code <= 599 && r.Body != "endless" && rnd.Intn(3) == 0 {
			// framed by HTTP/1.1, the connection closing after the body: the announced length is the body's, or more, or absent
			_, _, body, _ := cfRender(&r, 1, call)
			bl := int64(len(body.data))
			if r.Body == "wszero" {
				bl = 44 // its rendering varies with the position in the script: the longest variant
			}
			r.Bend = "trunc"
			r.Cl = cfNum{K: []int64{bl, bl, bl + 1, bl + 1, 2*bl + 3, -1}[rnd.Intn(6)]}
			if r.Body == "blob" && rnd.Intn(2) == 0 {
				r.Bcont = cfPick(rnd, "e", "s", "Bh", "Bs")
				r.Cl = cfNum{K: int64(len(cfCat.bytes[r.Bcont])) + []int64{1, 1, 2, cfThreshold}[rnd.Intn(4)]}
			}
		}
	}
	return r
}

func cfRandScenario(rnd *rand.Rand) *cfScenario {
	s := &cfScenario{src: "random"}
	s.PS = []int{-1, 0, 1, 2, -1, 0, 1, 2, -7, 3}[rnd.Intn(10)]
	names := []string{"ResolveBlob", "ResolveManifest", "ResolveTag", "GetBlob", "GetManifest", "GetTag", "GetTag", "GetBlobRange", "DeleteBlob", "DeleteManifest",
		"DeleteTag", "MountBlob", "PushManifest", "PushBlob", "PushBlobChunked", "PushBlobChunked", "Resume", "Resume", "Repositories", "Repositories", "Tags", "Tags", "Referrers"}
	c := cfCall{Name: names[rnd.Intn(len(names))], Mt: true}
	switch c.Name {
	case "ResolveBlob", "ResolveManifest", "GetBlob", "GetManifest", "DeleteBlob", "DeleteManifest", "Referrers":
		c.Ref = "digest"
	case "ResolveTag", "GetTag", "DeleteTag":
		c.Ref = "tag"
	case "GetBlobRange":
		c.Ref = "digest"
		c.O0 = int64(rnd.Intn(4))
		c.O1 = int64(rnd.Intn(6)) - 1
	case "PushManifest":
		c.Ref = cfPick(rnd, "tag", "digest")
		c.Csize = 2
		c.Mt = rnd.Intn(8) != 0
	case "PushBlob":
		c.Csize = []int64{0, 2}[rnd.Intn(2)]
	case "PushBlobChunked":
		c.Hint = []int{0, -3, 1, 2, 3, 5, 8}[rnd.Intn(7)]
	case "Resume":
		c.Hint = []int{0, 1, 2, 3, 5}[rnd.Intn(5)]
		if rnd.Intn(2) == 0 {
			c.Off, c.Idform = -1, "path"
		} else {
			c.Off = []int64{-2, 0, 0, 1, 3, 7}[rnd.Intn(6)]
			c.Idform = cfPick(rnd, "path", "path", "path", "url", "rel", "bad", "empty")
		}
	}
	if c.Name == "Repositories" || c.Name == "Tags" || c.Name == "Referrers" {
		c.Take = []int{0, 0, 0, 1, 2, 3, 5, 1500}[rnd.Intn(8)]
		c.Start = c.Name != "Referrers" && rnd.Intn(3) == 0
	}
	s.calls = append(s.calls, c)
	switch c.Name {
	case "GetBlob", "GetManifest", "GetTag", "GetBlobRange":
		s.calls = append(s.calls, cfCall{Name: "ReadAll", Mt: true})
	case "PushBlobChunked", "Resume":
		for i := 1 + rnd.Intn(5); i > 0; i-- {
			w := cfCall{Name: cfPick(rnd, "Write", "Write", "Write", "Close", "Size", "Commit"), Mt: true}
			switch w.Name {
			case "Write":
				w.Wlen = []int{0, 1, 1, 2, 3, 4, 9}[rnd.Intn(7)]
			case "Commit":
				w.Dg = cfPick(rnd, "want", "want", "want", "empty")
			}
			s.calls = append(s.calls, w)
		}
	}
	last := c.Name
	if len(s.calls) > 1 && s.calls[1].Name != "ReadAll" {
		last = "Write"
	}
	fine := rnd.Intn(3) > 0 // mostly well-behaved answers with single faults, or arbitrary answers throughout
	for i, k := 1+rnd.Intn(6), 0; i > 0; i, k = i-1, k+1 {
		step := c.Name
		if k > 0 {
			step = cfPick(rnd, last, last, c.Name)
			if last == "Write" && rnd.Intn(3) == 0 {
				step = "Commit"
			}
			if c.Name == "PushBlob" {
				step = "Commit" // the PUT of a monolithic push: 201
			}
		}
		if fine && rnd.Intn(5) > 0 {
			s.script = append(s.script, cfNearFine(rnd, step))
		} else {
			s.script = append(s.script, cfRandResp(rnd, step))
		}
	}
	if rnd.Intn(6) == 0 && len(s.script) > 0 {
		// a script that repeats its last answer
		for i := 0; i < 8; i++ {
			s.script = append(s.script, s.script[len(s.script)-1])
		}
	}
	return s
}

// ---------------------------------------------------------------- the command
func cfCmd(args []string) error {
	fs := flag.NewFlagSet("faults", flag.ExitOnError)
	seed := fs.Int64("seed", 1, "seed for the random scenarios and for the page-size rotation")
	n := fs.Int("n", 0, "number of seeded-random scenarios")
	scen := fs.String("scen", "", "file with one scenario per line as exported by TLC from OciClientFaultsMC ({ps, ev})")
	replay := fs.String("replay", "", "trace or replay file: re-execute its scenarios (calls and responses are read back from the events)")
	only := fs.String("only", "", "comma-separated top-level call names to keep (others are skipped)")
	timeout := fs.Duration("timeout", 15*time.Second, "watchdog per call (the transport never blocks; correct calls take milliseconds)")
	maxHangs := fs.Int("maxhangs", 4, "stop after this many hung calls (each costs a watchdog period)")
	out := fs.String("out", "", "trace file")
	fs.Parse(args)
	f, err := os.Create(*out)
	if err != nil {
		return err
	}
	defer f.Close()
	bw := bufio.NewWriterSize(f, 1<<20)
	defer bw.Flush()
	enc := json.NewEncoder(bw)
	enc.SetEscapeHTML(false)
	enc.Encode(ev{"op": "header", "defaultN": ociclient.DefaultListPageSize, "threshold": cfThreshold, "errlimit": cfErrLimit,
		"defaultChunk": cfDefaultChunk, "maxalloc": cfMaxAlloc, "clamp": cfClamp})
	keep := map[string]bool{}
	for _, x := range strings.Split(*only, ",") {
		if x != "" {
			keep[x] = true
		}
	}
	var scens []*cfScenario
	scanLines := func(path string, fn func([]byte) error) error {
		cf, err := os.Open(path)
		if err != nil {
			return err
		}
		defer cf.Close()
		sc := bufio.NewScanner(cf)
		sc.Buffer(make([]byte, 1<<20), 1<<28)
		for sc.Scan() {
			if len(bytes.TrimSpace(sc.Bytes())) == 0 {
				continue
			}
			if err := fn(sc.Bytes()); err != nil {
				return err
			}
		}
		return sc.Err()
	}
	pageSizes := []int{-1, 0, 1, 2}
	if *scen != "" {
		i := 0
		err := scanLines(*scen, func(b []byte) error {
			s := &cfScenario{src: "tlc"}
			if err := json.Unmarshal(b, s); err != nil {
				return fmt.Errorf("scenario: %v", err)
			}
			s.split()
			if len(s.calls) == 0 {
				return nil
			}
			if nm := s.calls[0].Name; nm != "Repositories" && nm != "Tags" {
				// the page size does not reach these operations' requests: rotate the sizes over them
				s.PS = pageSizes[(i+int(*seed))%4]
			}
			i++
			scens = append(scens, s)
			return nil
		})
		if err != nil {
			return err
		}
	}
	if *replay != "" {
		var cur *cfScenario
		err := scanLines(*replay, func(b []byte) error {
			var e struct {
				Op string  `json:"op"`
				PS int     `json:"ps"`
				R  *cfResp `json:"r"`
				cfCall
			}
			if err := json.Unmarshal(b, &e); err != nil {
				return fmt.Errorf("replay event: %v", err)
			}
			switch e.Op {
			case "reset":
				cur = &cfScenario{PS: e.PS, src: "replay"}
				scens = append(scens, cur)
			case "call":
				if cur != nil {
					cur.calls = append(cur.calls, e.cfCall)
				}
			case "rt":
				if cur != nil && e.R != nil {
					if e.R.MvT > 0 {
						e.R.Mv = cfNum{T: e.R.MvT, K: e.R.MvK}
					}
					cur.script = append(cur.script, *e.R)
				}
			case "panic", "hang", "timeout":
				// the event of a call that did not return: its call line precedes it
			}
			return nil
		})
		if err != nil {
			return err
		}
	}
	rnd := rand.New(rand.NewSource(*seed))
	for i := 0; i < *n; i++ {
		scens = append(scens, cfRandScenario(rnd))
	}
	rn := &cfRunner{enc: enc, timeout: *timeout}
	ran := 0
	for i, s := range scens {
		if len(keep) > 0 && (len(s.calls) == 0 || !keep[s.calls[0].Name]) {
			continue
		}
		rn.run(i+1, s)
		ran++
		if rn.hangs >= *maxHangs {
			// every hang costs a watchdog period and leaves a goroutine behind: what is recorded is enough for a verdict
			break
		}
	}
	bw.Flush()
	res, _ := json.Marshal(ev{"scenarios": ran, "calls": rn.calls, "requests": rn.reqs, "panics": rn.panics, "hangs": rn.hangs, "stopped": rn.hangs >= *maxHangs})
	fmt.Println(string(res))
	return nil
}
