package main

import (
	"crypto/sha256"
	"encoding/binary"
	"encoding/json"
	"fmt"
	"math/rand"
	"sort"
	"strings"

	"github.com/opencontainers/go-digest"
)

// Abstract media types used in scenarios and traces, and the concrete strings they stand for.
const (
	mtImage  = "application/vnd.oci.image.manifest.v1+json"
	mtIndex  = "application/vnd.oci.image.index.v1+json"
	mtOther1 = "application/vnd.Verif.Opaque.v1+json; version=1.4" // parameter and upper case: has to be relayed verbatim
	mtOther2 = "application/json"
	mtOctet  = "application/octet-stream"
	// a media type with a parameter and upper-case letters: has to be relayed verbatim
	mtOther3 = "application/vnd.Verif.Param+json; version=1.4"
	// a manifest type with the +json suffix that no layer here interprets: whatever bytes are pushed under it are opaque
	mtOther4 = "application/vnd.docker.distribution.manifest.v2+json"
)

var mtConcrete = map[string]string{
	"image": mtImage, "index": mtIndex, "other": mtOther1, "other2": mtOther2, "other3": mtOther3, "other4": mtOther4, "octet": mtOctet,
}

func mtAbstract(s string) string {
	for k, v := range mtConcrete {
		if v == s {
			return k
		}
	}
	if s == "" {
		return "none"
	}
	return "raw:" + s
}

const blockSize = 8192

// View is the meaning of a manifest's bytes when read under one of the two media types the
// registry interprets.  It is computed by the generator from what it generated, never by
// calling the code under test.
type View struct {
	WF          bool        `json:"wf"`
	Parses      bool        `json:"parses"` // the bytes can be read under the type at all (what they name is then followed by reachability walks)
	Blobs       []string    `json:"blobs"`
	Mans        [][2]string `json:"mans"`
	Subject     string      `json:"subject"`
	SubjectType string      `json:"subjectType"`
}

type Content struct {
	ID      string
	Man     bool
	Data    []byte
	Elems   []int
	Natural string
	As      map[string]View
	Digest  digest.Digest
	// Phantom: only a digest (of an algorithm other than sha256): it names content no registry here
	// can hold; it is used as an argument only, never as content to send
	Phantom bool
}

type Catalog struct {
	Contents []*Content
	byID     map[string]*Content
	byDigest map[digest.Digest]*Content
	Repos    []string // ascending byte order
	Tags     []string // ascending byte order
	Uploads  []string
}

func blockBytes(id int) []byte {
	out := make([]byte, 0, blockSize)
	var seed [8]byte
	binary.LittleEndian.PutUint64(seed[:], uint64(id))
	h := sha256.Sum256(seed[:])
	for len(out) < blockSize {
		out = append(out, h[:]...)
		h = sha256.Sum256(h[:])
	}
	return out[:blockSize]
}

func elemsToBytes(elems []int) []byte {
	var out []byte
	for _, e := range elems {
		if e < 256 {
			out = append(out, byte(e))
		} else {
			out = append(out, blockBytes(e)...)
		}
	}
	return out
}

// bytesToElems is the inverse of elemsToBytes for data made of bytes and whole blocks
// drawn from the given block ids.
func bytesToElems(data []byte, blocks []int) []int {
	out := []int{}
	for len(data) > 0 {
		matched := false
		if len(data) >= blockSize {
			for _, b := range blocks {
				if string(data[:blockSize]) == string(blockBytes(b)) {
					out = append(out, b)
					data = data[blockSize:]
					matched = true
					break
				}
			}
		}
		if !matched {
			out = append(out, int(data[0]))
			data = data[1:]
		}
	}
	return out
}

func (cat *Catalog) add(c *Content) *Content {
	c.Digest = digest.FromBytes(c.Data)
	if cat.byID == nil {
		cat.byID = map[string]*Content{}
		cat.byDigest = map[digest.Digest]*Content{}
	}
	if _, dup := cat.byDigest[c.Digest]; dup {
		panic("duplicate content in catalogue: " + c.ID)
	}
	cat.Contents = append(cat.Contents, c)
	cat.byID[c.ID] = c
	cat.byDigest[c.Digest] = c
	return c
}

// addPhantoms adds digests of the other registered algorithms to the catalogue: well-formed
// digests that every layer has to relay verbatim and that never name stored content.
func (cat *Catalog) addPhantoms() {
	for _, p := range []struct {
		id  string
		dig digest.Digest
	}{
		{"x384", digest.SHA384.FromString("phantom")},
		{"x512", digest.SHA512.FromBytes(cat.byID["b1"].Data)}, // the sha512 digest of bytes the catalogue does hold
	} {
		c := &Content{ID: p.id, Elems: []int{999999}, Natural: "octet", Digest: p.dig, Phantom: true,
			As: map[string]View{"image": noView, "index": noView}}
		cat.Contents = append(cat.Contents, c)
		cat.byID[c.ID] = c
		cat.byDigest[c.Digest] = c
	}
}

var noView = View{WF: false, Blobs: []string{}, Mans: [][2]string{}, Subject: "-", SubjectType: "-"}

func (cat *Catalog) addBlob(id string, elems []int) *Content {
	return cat.add(&Content{
		ID: id, Data: elemsToBytes(elems), Elems: append([]int{}, elems...), Natural: "octet",
		As: map[string]View{"image": noView, "index": noView},
	})
}

func (cat *Catalog) descJSON(id, mt string) string {
	c := cat.byID[id]
	return fmt.Sprintf(`{"mediaType":%q,"digest":%q,"size":%d}`, mtConcrete[mt], c.Digest, len(c.Data))
}

var manElem = 1000

func (cat *Catalog) addMan(c *Content) *Content {
	c.Man = true
	manElem++
	c.Elems = []int{manElem}
	return cat.add(c)
}

// addImage adds an image manifest.  defect: "" (fine), "zerosize" (config descriptor claims
// size 0 for a non-empty digest), "nomt" (config descriptor without media type).
func (cat *Catalog) addImage(id, config string, layers []string, subject, subjectType, nonce, defect string, pad int) *Content {
	cfg := cat.descJSON(config, "octet")
	switch defect {
	case "zerosize":
		cfg = fmt.Sprintf(`{"mediaType":%q,"digest":%q,"size":0}`, mtOctet, cat.byID[config].Digest)
	case "nomt":
		cfg = fmt.Sprintf(`{"digest":%q,"size":%d}`, cat.byID[config].Digest, len(cat.byID[config].Data))
	}
	ls := []string{}
	blobs := []string{config}
	for _, l := range layers {
		// a layer id prefixed with "u:" gets a descriptor with a urls list (a "foreign" layer);
		// it is a reference to the blob like any other
		if id, ok := strings.CutPrefix(l, "u:"); ok {
			d := cat.descJSON(id, "octet")
			ls = append(ls, d[:len(d)-1]+`,"urls":["https://example.invalid/layers/`+id+`"]}`)
			blobs = append(blobs, id)
			continue
		}
		ls = append(ls, cat.descJSON(l, "octet"))
		blobs = append(blobs, l)
	}
	sub := ""
	if subject != "-" {
		sub = `,"subject":` + cat.descJSON(subject, subjectType)
	} else {
		subjectType = "-"
	}
	padding := ""
	if pad > 0 {
		padding = `,"pad":"` + strings.Repeat("x", pad) + `"`
	}
	data := fmt.Sprintf(`{"schemaVersion":2,"mediaType":%q,"config":%s,"layers":[%s]%s,"annotations":{"nonce":%q%s}}`,
		mtImage, cfg, strings.Join(ls, ","), sub, nonce, padding)
	var chk any
	if err := json.Unmarshal([]byte(data), &chk); err != nil {
		panic(err)
	}
	wf := defect == ""
	// the empty blob may only be described with size 0 and the empty digest, which descJSON does.
	return cat.addMan(&Content{ID: id, Data: []byte(data), Natural: "image", As: map[string]View{
		"image": {WF: wf, Parses: true, Blobs: uniq(blobs), Mans: [][2]string{}, Subject: subject, SubjectType: subjectType},
		// read as an index there are no "manifests"; the subject is still seen
		"index": {WF: true, Parses: true, Blobs: []string{}, Mans: [][2]string{}, Subject: subject, SubjectType: subjectType},
	}})
}

func (cat *Catalog) addIndex(id string, children [][2]string, subject, subjectType, nonce string) *Content {
	ms := []string{}
	for _, ch := range children {
		ms = append(ms, cat.descJSON(ch[0], ch[1]))
	}
	sub := ""
	if subject != "-" {
		sub = `,"subject":` + cat.descJSON(subject, subjectType)
	} else {
		subjectType = "-"
	}
	data := fmt.Sprintf(`{"schemaVersion":2,"mediaType":%q,"manifests":[%s]%s,"annotations":{"nonce":%q}}`,
		mtIndex, strings.Join(ms, ","), sub, nonce)
	if children == nil {
		children = [][2]string{}
	}
	return cat.addMan(&Content{ID: id, Data: []byte(data), Natural: "index", As: map[string]View{
		// read as an image the config descriptor is missing: rejected at push time; a walk sees the subject only
		"image": {WF: false, Parses: true, Blobs: []string{}, Mans: [][2]string{}, Subject: subject, SubjectType: subjectType},
		"index": {WF: true, Parses: true, Blobs: []string{}, Mans: uniq2(children), Subject: subject, SubjectType: subjectType},
	}})
}

// addOpaque adds manifest bytes that are either not JSON at all or JSON that describes nothing.
func (cat *Catalog) addOpaque(id string, data string, validJSON bool) *Content {
	idx, img := noView, noView
	if validJSON {
		// a JSON object naming nothing: an empty index; as an image it lacks a config but can be read
		idx = View{WF: true, Parses: true, Blobs: []string{}, Mans: [][2]string{}, Subject: "-", SubjectType: "-"}
		img = View{WF: false, Parses: true, Blobs: []string{}, Mans: [][2]string{}, Subject: "-", SubjectType: "-"}
	}
	return cat.addMan(&Content{ID: id, Data: []byte(data), Natural: "other", As: map[string]View{"image": img, "index": idx}})
}

func uniq(xs []string) []string {
	m := map[string]bool{}
	out := []string{}
	for _, x := range xs {
		if !m[x] {
			m[x] = true
			out = append(out, x)
		}
	}
	sort.Strings(out)
	return out
}

func uniq2(xs [][2]string) [][2]string {
	m := map[[2]string]bool{}
	out := [][2]string{}
	for _, x := range xs {
		if !m[x] {
			m[x] = true
			out = append(out, x)
		}
	}
	return out
}

// mcCatalog is the fixed small universe the exhaustive TLC configurations range over
// (spec/OciRegistryMC.tla uses the same ids; the trace carries this catalogue itself, so
// validation never depends on the two agreeing).
func mcCatalog() *Catalog {
	cat := &Catalog{Repos: []string{"r1", "r2"}, Tags: []string{"t1", "t2"}, Uploads: []string{"u1", "u2"}}
	cat.addBlob("b0", []int{})
	cat.addBlob("b1", []int{1})
	cat.addBlob("b2", []int{1, 2})
	cat.addBlob("b3", []int{1, 2, 1})
	cat.addBlob("b4", []int{1, 2, 1, 2})
	// 12 MiB: hashing it takes long enough for another call on the same session to arrive meanwhile
	bigb := make([]int, 1536)
	for i := range bigb {
		bigb[i] = 400 + i%7
	}
	cat.addBlob("bigb", bigb)
	cat.addImage("img", "b1", nil, "-", "-", "img", "", 0)
	cat.addIndex("idx", [][2]string{{"img", "image"}}, "-", "-", "idx")
	cat.addIndex("idy", [][2]string{{"img", "other"}}, "-", "-", "idy")
	cat.addImage("sub", "b2", []string{"u:b1"}, "img", "image", "sub", "", 0)
	cat.addOpaque("bad", `{"schemaVersion":2,"config":`, false)
	// an index naming the unreadable bytes as an image manifest, ahead of a real one
	cat.addIndex("idz", [][2]string{{"bad", "image"}, {"img", "image"}}, "-", "-", "idz")
	// the same bytes as a blob and as a manifest: imx has the bytes of the manifest sub as a layer, idw names imx and then sub
	cat.addImage("imx", "b1", []string{"sub"}, "-", "-", "imx", "", 0)
	cat.addIndex("idw", [][2]string{{"imx", "image"}, {"sub", "image"}}, "-", "-", "idw")
	// an image whose layer is named by nothing else, with a subject that can be stored beside it
	cat.addImage("sub2", "b1", []string{"b2"}, "img", "image", "sub2", "", 0)
	// large opaque manifests: pushing them takes long enough for concurrent pushes to overlap
	for _, id := range []string{"big1", "big2", "big3"} {
		cat.addOpaque(id, `{"id":"`+id+`","pad":"`+strings.Repeat("x", 3<<20)+`"}`, true)
	}
	return cat
}

// ill-formed repository names (used only against the in-memory registry directly)
var badRepos = []string{"Bad", "a//b", "-x", "a/", "x..y"}

var repoPool = []string{"a", "a/blobs/uploads", "blobs", "manifests/tags", "x/referrers", "tags/list", "b-1.x_y", "foo/bar",
	"foo", "fooey", "foo/bar/baz", "v2", "catalog/x", "r0", "uploads/blobs/manifests", "z9"}
var tagPool = []string{"t1", "latest", "blobs", "v1.0", "aWQ", "tags", "list", "T_2", "uploads", "referrers", "a.b-c", "_x"}

// randCatalog builds a seeded catalogue: nb blobs, nm manifests.
func randCatalog(rnd *rand.Rand, nRepos, nTags, nb, nm int, big bool) *Catalog {
	cat := &Catalog{Uploads: []string{"u1", "u2", "u3", "u4", "u5", "u6", "u7", "u8", "u9", "ua", "ub", "uc"}}
	perm := rnd.Perm(len(repoPool))
	for i := 0; i < nRepos && i < len(perm); i++ {
		cat.Repos = append(cat.Repos, repoPool[perm[i]])
	}
	perm = rnd.Perm(len(tagPool))
	for i := 0; i < nTags && i < len(perm); i++ {
		cat.Tags = append(cat.Tags, tagPool[perm[i]])
	}
	sort.Strings(cat.Repos)
	sort.Strings(cat.Tags)
	var blobs, mans []string
	fixed := [][]int{{}, {0}, {7, 0}, {0xe2, 0x82}, {0xff, 0xfe, 0x00}, {'h', 'i', '\n'}, {'{', '}'}} // the last one is the well-known empty JSON blob
	for i := 0; i < nb; i++ {
		id := fmt.Sprintf("b%d", i)
		var elems []int
		switch {
		case i < len(fixed):
			elems = fixed[i]
		case i == len(fixed):
			elems = []int{300, 301, 5} // two blocks and a byte
		default:
			n := 1 + rnd.Intn(12)
			elems = make([]int, n)
			for j := range elems {
				elems[j] = rnd.Intn(256)
			}
			// make it unique
			elems = append(elems, i)
		}
		cat.addBlob(id, elems)
		blobs = append(blobs, id)
	}
	pick := func(xs []string) string { return xs[rnd.Intn(len(xs))] }
	for i := 0; i < nm; i++ {
		id := fmt.Sprintf("m%d", i)
		nonce := fmt.Sprintf("n%d-%d", i, rnd.Int63())
		subject, subjectType := "-", "-"
		if len(mans) > 0 && rnd.Intn(3) == 0 {
			subject = pick(mans)
			subjectType = cat.byID[subject].Natural
		}
		k := rnd.Intn(20)
		switch {
		case k < 11 || len(mans) == 0 && k < 16:
			var layers []string
			for j := rnd.Intn(3); j > 0; j-- {
				l := pick(blobs)
				if len(mans) > 0 && rnd.Intn(8) == 0 {
					// a layer may be any bytes, those of a manifest included
					if m := pick(mans); len(cat.byID[m].Data) < 65536 {
						l = m
					}
				}
				if rnd.Intn(3) == 0 {
					l = "u:" + l
				}
				layers = append(layers, l)
			}
			pad := 0
			if big && i == 1 {
				pad = 140 * 1024
			}
			if big && i == 2 {
				pad = 4*1024*1024 + 300*1024 // beyond any round limit a layer in between might apply
			}
			cat.addImage(id, pick(blobs), layers, subject, subjectType, nonce, "", pad)
		case k < 16:
			var ch [][2]string
			for j := 1 + rnd.Intn(2); j > 0; j-- {
				c := pick(mans)
				t := cat.byID[c].Natural
				switch rnd.Intn(12) {
				case 0, 1:
					t = "other"
				case 2:
					// named under a type it is not stored with, whatever its bytes are
					t = pick([]string{"image", "index"})
				}
				ch = append(ch, [2]string{c, t})
			}
			cat.addIndex(id, ch, subject, subjectType, nonce)
		case k == 16:
			cat.addOpaque(id, fmt.Sprintf(`{"nonce":%q}`, nonce), true)
		case k == 17:
			if len(mans) > 0 && rnd.Intn(2) == 0 {
				// a complete manifest followed by more bytes: not JSON, whatever its first value says
				base := cat.byID[pick(mans)]
				cat.addOpaque(id, string(base.Data)+pick([]string{"}", " {}", "\n" + string(base.Data), " x"})+fmt.Sprintf(" %q", nonce), false)
				break
			}
			cat.addOpaque(id, fmt.Sprintf(`{"schemaVersion":2,"nonce":%q,"config":`, nonce), false)
		case k == 18:
			// a non-empty config blob is needed for the zero-size defect to be one
			cfg := blobs[1+rnd.Intn(len(blobs)-1)]
			cat.addImage(id, cfg, nil, "-", "-", nonce, "zerosize", 0)
		default:
			cat.addImage(id, pick(blobs), nil, "-", "-", nonce, "nomt", 0)
		}
		mans = append(mans, id)
	}
	// every catalogue has a complete image manifest followed by more bytes (not JSON, whatever its first value says)
	for _, m := range mans {
		if c := cat.byID[m]; c.Natural == "image" && c.As["image"].WF && len(c.Data) < 4096 {
			cat.addOpaque(fmt.Sprintf("m%d", nm), string(c.Data)+pick([]string{"}", " {}", " x", "\n[]"}), false)
			break
		}
	}
	return cat
}

// header renders the catalogue as the first trace line.
func (cat *Catalog) header() map[string]any {
	cids := make([]string, 0, len(cat.Contents))
	cm := map[string]any{}
	for _, c := range cat.Contents {
		cids = append(cids, c.ID)
		elems := c.Elems
		if elems == nil {
			elems = []int{}
		}
		cm[c.ID] = map[string]any{"size": len(c.Data), "bytes": elems, "man": c.Man, "natural": c.Natural, "json": json.Valid(c.Data),
			"as": map[string]any{"image": c.As["image"], "index": c.As["index"]}}
	}
	sort.Slice(cids, func(i, j int) bool { return cat.byID[cids[i]].Digest < cat.byID[cids[j]].Digest })
	return map[string]any{"op": "catalog", "repos": cat.Repos, "tags": cat.Tags, "cids": cids, "cat": cm,
		"uploads": cat.Uploads, "blockSize": blockSize, "badrepos": badRepos}
}

// listPos gives the position of a listing start point relative to a sorted universe:
// element i (1-based) sits at 2i, a string strictly between elements at an odd number,
// the empty string (no start point) at 0.
func listPos(sorted []string, s string) int {
	if s == "" {
		return 0
	}
	n := 0
	for _, x := range sorted {
		if x == s {
			return 2 * (n + 1)
		}
		if x < s {
			n++
		}
	}
	return 2*n + 1
}

func (cat *Catalog) cidOfDigest(d digest.Digest) string {
	if d == "" {
		return "-"
	}
	if c := cat.byDigest[d]; c != nil {
		return c.ID
	}
	return "?"
}

func (cat *Catalog) cidOfBytes(data []byte) string {
	return cat.cidOfDigest(digest.FromBytes(data))
}

func (cat *Catalog) blocks() []int {
	seen := map[int]bool{}
	var out []int
	for _, c := range cat.Contents {
		if c.Man {
			continue
		}
		for _, e := range c.Elems {
			if e >= 256 && !seen[e] {
				seen[e] = true
				out = append(out, e)
			}
		}
	}
	return out
}
