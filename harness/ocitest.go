package main

// ocitest: the content pusher of package ocitest (RegistryContent / RepoContent, PushContent).
//
// A case is a symbolic registry content: per repository blobs (identifier -> bytes), manifests
// (identifier -> config / layers / subject identifiers) and tags (tag -> manifest identifier).  Cases come
// from TLC (-cases: contents exported from spec/OciTestContentMC), from a seeded generator (-n) or from the
// reset lines of a stored trace (-replay).
//
// Per case the command
//  (a) pushes each repository's content once into a throw-away ocimem to learn the bytes of the manifests
//      (PushedRepoContent.ManifestData), and enters blobs and manifest bytes into the catalogue: what the
//      bytes name is read here, with a parser of its own (config/layers/subject digests -> content ids);
//  (b) runs PushContent again on a fresh ocimem behind a recording registry: every Interface call the pusher
//      makes is logged as a RegTrace event ("direct": each is validated as a step of OciRegistry), then a
//      snapshot of the registry;
//  (c) logs one `expect` event: the input content by content id, the outcome of PushContent (ok or the error,
//      projected) and the descriptors it returned.  A panic is logged as {"op":"panic",...}.
// No oracle logic here: spec/OciTestTrace.tla judges.

import (
	"bufio"
	"bytes"
	"context"
	"encoding/json"
	"flag"
	"fmt"
	"io"
	"math/rand"
	"os"
	"regexp"
	"sort"
	"strings"

	"cuelabs.dev/go/oci/ociregistry"
	"cuelabs.dev/go/oci/ociregistry/ocimem"
	"cuelabs.dev/go/oci/ociregistry/ocitest"
	"github.com/opencontainers/go-digest"
	"github.com/opencontainers/image-spec/specs-go"
)

func init() { commands["ocitest"] = ociTestCmd }

type otMan struct {
	Config  string   `json:"config"`
	Layers  []string `json:"layers"`
	Subject string   `json:"subject"` // "-": none
	Ann     string   `json:"ann"`     // value of an annotation ("": none); tells manifests with equal fields apart
}

type otRepo struct {
	Blobs map[string]string `json:"blobs"` // identifier -> content
	Mans  map[string]otMan  `json:"mans"`
	Tags  map[string]string `json:"tags"` // tag -> manifest identifier
}

type otCase struct {
	Src   string            `json:"src"`
	Repos map[string]otRepo `json:"repos"`
}

const otBlobType = "application/binary" // what ocitest declares its blobs as

// repoContent concretises one repository's symbolic content as the ocitest input.
func (rc otRepo) repoContent() ocitest.RepoContent {
	out := ocitest.RepoContent{
		Manifests: map[string]ociregistry.Manifest{},
		Blobs:     map[string]string{},
		Tags:      map[string]string{},
	}
	for id, b := range rc.Blobs {
		out.Blobs[id] = b
	}
	for t, m := range rc.Tags {
		out.Tags[t] = m
	}
	for id, m := range rc.Mans {
		man := ociregistry.Manifest{
			Versioned: specs.Versioned{SchemaVersion: 2},
			MediaType: mtImage,
			Config:    ociregistry.Descriptor{Digest: digest.Digest(m.Config)},
			Layers:    []ociregistry.Descriptor{},
		}
		for _, l := range m.Layers {
			man.Layers = append(man.Layers, ociregistry.Descriptor{Digest: digest.Digest(l)})
		}
		if m.Subject != "-" && m.Subject != "" {
			man.Subject = &ociregistry.Descriptor{Digest: digest.Digest(m.Subject)}
		}
		if m.Ann != "" {
			man.Annotations = map[string]string{"verif.id": m.Ann}
		}
		out.Manifests[id] = man
	}
	return out
}

func (c otCase) content() ocitest.RegistryContent {
	out := ocitest.RegistryContent{}
	for r, rc := range c.Repos {
		out[r] = rc.repoContent()
	}
	return out
}

// otLearned is what the first run told about a case: manifest identifier -> content id, per repository.
type otLearned map[string]map[string]string

// otDesc / otManifest: the harness's own reading of manifest bytes.
type otDesc struct {
	MediaType string `json:"mediaType"`
	Digest    string `json:"digest"`
	Size      *int64 `json:"size"`
}

type otManifest struct {
	Config  *otDesc  `json:"config"`
	Layers  []otDesc `json:"layers"`
	Subject *otDesc  `json:"subject"`
}

var otEmptyDigest = digest.FromString("")

func (d otDesc) sane() bool {
	if digest.Digest(d.Digest).Validate() != nil || d.MediaType == "" || d.Size == nil || *d.Size < 0 {
		return false
	}
	return !(*d.Size == 0 && digest.Digest(d.Digest) != otEmptyDigest)
}

// otViews reads manifest bytes as an image manifest: what it names, by content id.
func otViews(cat *Catalog, data []byte) map[string]View {
	var m otManifest
	if err := json.Unmarshal(data, &m); err != nil {
		return map[string]View{"image": noView, "index": noView}
	}
	wf := m.Config != nil
	blobs := []string{}
	descs := append([]otDesc{}, m.Layers...)
	if m.Config != nil {
		descs = append(descs, *m.Config)
	}
	for _, d := range descs {
		wf = wf && d.sane()
		blobs = append(blobs, cat.cidOfDigest(digest.Digest(d.Digest)))
	}
	subject, subjectType := "-", "-"
	if m.Subject != nil {
		wf = wf && m.Subject.sane()
		subject = cat.cidOfDigest(digest.Digest(m.Subject.Digest))
		subjectType = mtAbstract(m.Subject.MediaType)
	}
	return map[string]View{
		"image": {WF: wf, Parses: true, Blobs: uniq(blobs), Mans: [][2]string{}, Subject: subject, SubjectType: subjectType},
		// read as an index there are no "manifests"; the subject is still seen
		"index": {WF: m.Subject == nil || m.Subject.sane(), Parses: true, Blobs: []string{}, Mans: [][2]string{}, Subject: subject, SubjectType: subjectType},
	}
}

// otCatalog builds the catalogue of a batch of cases: every blob, and the bytes of every manifest the
// first run (one repository at a time, tags naming no manifest left out) produced.
type otCatalog struct {
	cat     *Catalog
	pending []*Content // manifests whose views are filled in once every content has its id
	learned []otLearned
}

func (oc *otCatalog) blobID(content string) string {
	d := digest.FromString(content)
	if c := oc.cat.byDigest[d]; c != nil {
		return c.ID
	}
	elems := make([]int, len(content))
	for i := 0; i < len(content); i++ {
		elems[i] = int(content[i])
	}
	return oc.cat.addBlob(fmt.Sprintf("cb%d", len(oc.cat.Contents)), elems).ID
}

func (oc *otCatalog) manID(data []byte) string {
	d := digest.FromBytes(data)
	if c := oc.cat.byDigest[d]; c != nil {
		return c.ID
	}
	c := oc.cat.addMan(&Content{ID: fmt.Sprintf("cm%d", len(oc.cat.Contents)), Data: append([]byte(nil), data...), Natural: "image"})
	oc.pending = append(oc.pending, c)
	return c.ID
}

// otManifestSink keeps the bytes of every manifest pushed to it.
type otManifestSink struct {
	ociregistry.Interface
	seen [][]byte
}

func (s *otManifestSink) PushManifest(ctx context.Context, repo, tag string, data []byte, mt string) (ociregistry.Descriptor, error) {
	s.seen = append(s.seen, append([]byte(nil), data...))
	return s.Interface.PushManifest(ctx, repo, tag, data, mt)
}

func (oc *otCatalog) learn(c otCase) {
	l := otLearned{}
	for _, r := range otKeys(c.Repos) {
		rc := c.Repos[r]
		l[r] = map[string]string{}
		for _, id := range otKeys(rc.Blobs) {
			oc.blobID(rc.Blobs[id])
		}
		fixed := otRepo{Blobs: rc.Blobs, Mans: rc.Mans, Tags: map[string]string{}}
		for t, m := range rc.Tags {
			if _, ok := rc.Mans[m]; ok {
				fixed.Tags[t] = m
			}
		}
		func() {
			defer func() { recover() }()
			sink := &otManifestSink{Interface: ocimem.New()}
			got, err := ocitest.PushContent(sink, ocitest.RegistryContent{r: fixed.repoContent()})
			for _, data := range sink.seen {
				oc.manID(data)
			}
			if err != nil {
				return
			}
			for _, id := range otKeys(got[r].ManifestData) {
				l[r][id] = oc.manID(got[r].ManifestData[id])
			}
		}()
	}
	oc.learned = append(oc.learned, l)
}

func (oc *otCatalog) finish() {
	for _, c := range oc.pending {
		c.As = otViews(oc.cat, c.Data)
	}
	oc.pending = nil
}

func otKeys[V any](m map[string]V) []string {
	keys := make([]string, 0, len(m))
	for k := range m {
		keys = append(keys, k)
	}
	sort.Strings(keys)
	return keys
}

// otRecorder logs every call made on the registry as a RegTrace event of a direct call.
type otRecorder struct {
	ociregistry.Interface // the registry underneath; every method is overridden below
	w                     *world
}

func (g *otRecorder) log(e ev, err error, desc *ociregistry.Descriptor) {
	observeErr(e, err)
	if err == nil && desc != nil {
		g.w.descFields(e, *desc)
	}
	g.w.direct = true
	g.w.emit(e)
}

func (g *otRecorder) unexpected(m string) {
	g.w.direct = true
	g.w.emit(ev{"op": "unexpected", "m": m})
}

func (g *otRecorder) cid(d ociregistry.Digest) string { return g.w.cat.cidOfDigest(d) }

func (g *otRecorder) PushBlob(ctx context.Context, repo string, desc ociregistry.Descriptor, r io.Reader) (ociregistry.Descriptor, error) {
	data, rerr := io.ReadAll(r)
	if rerr != nil {
		return ociregistry.Descriptor{}, rerr
	}
	e := opEvent(Op{Op: "PushBlob", R: repo, C: g.w.cat.cidOfBytes(data), DD: g.cid(desc.Digest), DS: int(desc.Size)})
	e["bmt"] = mtAbstract(desc.MediaType)
	got, err := g.Interface.PushBlob(ctx, repo, desc, bytes.NewReader(data))
	g.log(e, err, &got)
	return got, err
}

func (g *otRecorder) MountBlob(ctx context.Context, from, to string, d ociregistry.Digest) (ociregistry.Descriptor, error) {
	got, err := g.Interface.MountBlob(ctx, from, to, d)
	g.log(opEvent(Op{Op: "MountBlob", From: from, R: to, C: g.cid(d)}), err, &got)
	return got, err
}

func (g *otRecorder) PushManifest(ctx context.Context, repo, tag string, data []byte, mt string) (ociregistry.Descriptor, error) {
	t := tag
	if t == "" {
		t = "-"
	}
	e := opEvent(Op{Op: "PushManifest", R: repo, T: t, C: g.w.cat.cidOfBytes(data), MT: mtAbstract(mt)})
	got, err := g.Interface.PushManifest(ctx, repo, tag, data, mt)
	g.log(e, err, &got)
	return got, err
}

func (g *otRecorder) reader(e ev, r ociregistry.BlobReader, err error, slice bool) (ociregistry.BlobReader, error) {
	observeErr(e, err)
	if err != nil {
		g.w.direct = true
		g.w.emit(e)
		return nil, err
	}
	desc := r.Descriptor()
	data, rerr := io.ReadAll(r)
	r.Close()
	g.w.descFields(e, desc)
	e["rderr"] = rerr != nil
	e["n"] = len(data)
	e["vid"] = g.w.cat.cidOfBytes(data)
	if slice {
		e["slice"] = bytesToElems(data, g.w.cat.blocks())
	}
	g.w.direct = true
	g.w.emit(e)
	return ocimem.NewBytesReader(data, desc), nil
}

func (g *otRecorder) GetBlob(ctx context.Context, repo string, d ociregistry.Digest) (ociregistry.BlobReader, error) {
	r, err := g.Interface.GetBlob(ctx, repo, d)
	return g.reader(opEvent(Op{Op: "GetBlob", R: repo, C: g.cid(d)}), r, err, false)
}

func (g *otRecorder) GetBlobRange(ctx context.Context, repo string, d ociregistry.Digest, o0, o1 int64) (ociregistry.BlobReader, error) {
	r, err := g.Interface.GetBlobRange(ctx, repo, d, o0, o1)
	return g.reader(opEvent(Op{Op: "GetBlobRange", R: repo, C: g.cid(d), O0: int(o0), O1: int(o1)}), r, err, true)
}

func (g *otRecorder) GetManifest(ctx context.Context, repo string, d ociregistry.Digest) (ociregistry.BlobReader, error) {
	r, err := g.Interface.GetManifest(ctx, repo, d)
	return g.reader(opEvent(Op{Op: "GetManifest", R: repo, C: g.cid(d)}), r, err, false)
}

func (g *otRecorder) GetTag(ctx context.Context, repo, tag string) (ociregistry.BlobReader, error) {
	r, err := g.Interface.GetTag(ctx, repo, tag)
	return g.reader(opEvent(Op{Op: "GetTag", R: repo, T: tag}), r, err, false)
}

func (g *otRecorder) ResolveBlob(ctx context.Context, repo string, d ociregistry.Digest) (ociregistry.Descriptor, error) {
	got, err := g.Interface.ResolveBlob(ctx, repo, d)
	g.log(opEvent(Op{Op: "ResolveBlob", R: repo, C: g.cid(d)}), err, &got)
	return got, err
}

func (g *otRecorder) ResolveManifest(ctx context.Context, repo string, d ociregistry.Digest) (ociregistry.Descriptor, error) {
	got, err := g.Interface.ResolveManifest(ctx, repo, d)
	g.log(opEvent(Op{Op: "ResolveManifest", R: repo, C: g.cid(d)}), err, &got)
	return got, err
}

func (g *otRecorder) ResolveTag(ctx context.Context, repo, tag string) (ociregistry.Descriptor, error) {
	got, err := g.Interface.ResolveTag(ctx, repo, tag)
	g.log(opEvent(Op{Op: "ResolveTag", R: repo, T: tag}), err, &got)
	return got, err
}

func (g *otRecorder) DeleteBlob(ctx context.Context, repo string, d ociregistry.Digest) error {
	err := g.Interface.DeleteBlob(ctx, repo, d)
	g.log(opEvent(Op{Op: "DeleteBlob", R: repo, C: g.cid(d)}), err, nil)
	return err
}

func (g *otRecorder) DeleteManifest(ctx context.Context, repo string, d ociregistry.Digest) error {
	err := g.Interface.DeleteManifest(ctx, repo, d)
	g.log(opEvent(Op{Op: "DeleteManifest", R: repo, C: g.cid(d)}), err, nil)
	return err
}

func (g *otRecorder) DeleteTag(ctx context.Context, repo, tag string) error {
	err := g.Interface.DeleteTag(ctx, repo, tag)
	g.log(opEvent(Op{Op: "DeleteTag", R: repo, T: tag}), err, nil)
	return err
}

// The remaining methods have no event of their own here (the pusher has no use for them): the call is
// logged as "unexpected", which the trace specification has no step for.
func (g *otRecorder) PushBlobChunked(ctx context.Context, repo string, chunkSize int) (ociregistry.BlobWriter, error) {
	g.unexpected("PushBlobChunked")
	return g.Interface.PushBlobChunked(ctx, repo, chunkSize)
}

func (g *otRecorder) PushBlobChunkedResume(ctx context.Context, repo, id string, offset int64, chunkSize int) (ociregistry.BlobWriter, error) {
	g.unexpected("PushBlobChunkedResume")
	return g.Interface.PushBlobChunkedResume(ctx, repo, id, offset, chunkSize)
}

func (g *otRecorder) Repositories(ctx context.Context, startAfter string) ociregistry.Seq[string] {
	g.unexpected("Repositories")
	return g.Interface.Repositories(ctx, startAfter)
}

func (g *otRecorder) Tags(ctx context.Context, repo string, startAfter string) ociregistry.Seq[string] {
	g.unexpected("Tags")
	return g.Interface.Tags(ctx, repo, startAfter)
}

func (g *otRecorder) Referrers(ctx context.Context, repo string, d ociregistry.Digest, artifactType string) ociregistry.Seq[ociregistry.Descriptor] {
	g.unexpected("Referrers")
	return g.Interface.Referrers(ctx, repo, d, artifactType)
}

var (
	otErrRepo = regexp.MustCompile(`^cannot push content for repository "([^"]*)": (.*)$`)
	otErrTag  = regexp.MustCompile(`^tag "([^"]*)" refers to unknown manifest id "([^"]*)"$`)
)

// otProjectErr projects PushContent's error: the repository it names, its kind, what it lists.
func otProjectErr(e ev, err error) {
	e["ok"] = err == nil
	e["msg"] = ""
	e["errrepo"], e["errkind"], e["errtag"], e["missing"] = "-", "", "-", []string{}
	if err == nil {
		return
	}
	msg := err.Error()
	e["msg"] = msg
	e["errkind"] = "other"
	if m := otErrRepo.FindStringSubmatch(msg); m != nil {
		e["errrepo"] = m[1]
		msg = m[2]
	}
	switch {
	case strings.HasPrefix(msg, "no manifest found for ids "):
		e["errkind"] = "nomanifest"
		if rest := strings.TrimPrefix(msg, "no manifest found for ids "); rest != "" {
			e["missing"] = strings.Split(rest, ", ")
		}
	case otErrTag.MatchString(msg):
		e["errkind"] = "tag"
		e["errtag"] = otErrTag.FindStringSubmatch(msg)[1]
	case strings.HasPrefix(msg, "cannot push "):
		e["errkind"] = "push"
	}
}

func otRun(enc *json.Encoder, cat *Catalog, c otCase, learned otLearned) {
	mem := ocimem.New()
	w := &world{cat: cat, top: mem, writers: map[string]BlobWriterT{}, ids: map[string]string{}, out: enc}
	w.snapAll = append(w.snapAll, mem)
	w.emit(ev{"op": "reset", "imm": false, "stack": "mem", "hops": 0, "rec": false, "omitdigest": false, "wrap": "none", "minchunk": 8192,
		"case": c})
	reg := &otRecorder{Interface: mem, w: w}
	// the input, by content id
	want := ev{}
	got := ev{}
	for _, r := range cat.Repos {
		rc := c.Repos[r]
		bl, ml, tl := ev{}, ev{}, ev{}
		for id, content := range rc.Blobs {
			bl[id] = cat.cidOfBytes([]byte(content))
		}
		for id, m := range rc.Mans {
			cid := learned[r][id]
			if cid == "" {
				cid = "?"
			}
			layers := m.Layers
			if layers == nil {
				layers = []string{}
			}
			subject := m.Subject
			if subject == "" {
				subject = "-"
			}
			ml[id] = ev{"c": cid, "config": m.Config, "layers": layers, "subject": subject}
		}
		for t, m := range rc.Tags {
			tl[t] = m
		}
		want[r] = ev{"blobs": bl, "mans": ml, "tags": tl}
		got[r] = ev{"blobs": ev{}, "mans": ev{}}
	}
	e := ev{"op": "expect", "want": want, "got": got}
	func() {
		defer func() {
			if p := recover(); p != nil {
				e["op"] = "panic"
				e["inop"] = "PushContent"
				e["panic"] = fmt.Sprint(p)
			}
		}()
		pushed, err := ocitest.PushContent(reg, c.content())
		otProjectErr(e, err)
		for r, prc := range pushed {
			bl, ml := ev{}, ev{}
			for id, d := range prc.Blobs {
				bl[id] = cat.cidOfDigest(d.Digest)
			}
			for id, d := range prc.Manifests {
				ml[id] = cat.cidOfDigest(d.Digest)
			}
			got[r] = ev{"blobs": bl, "mans": ml}
		}
	}()
	w.snap(context.Background())
	w.direct = false
	w.emit(e)
}

// ---- seeded generator: larger contents than TLC's

var otBlobPool = map[string]string{
	"b0": "", "b1": "x", "b2": "hello\n", "b3": "{}", "b4": "0123456789abcdefghijklmnopqrstuvwxyz0123", "b5": `{"architecture":"amd64","os":"linux"}`,
}
var otRepoPool = []string{"a", "foo/bar", "b-1.x_y", "r0", "z9", "foo", "x/referrers"}
var otTagPool = []string{"t1", "latest", "v1.0", "_x", "T_2"}

func otRandRepo(rnd *rand.Rand, fault string) otRepo {
	rc := otRepo{Blobs: map[string]string{}, Mans: map[string]otMan{}, Tags: map[string]string{}}
	ids := otKeys(otBlobPool)
	rnd.Shuffle(len(ids), func(i, j int) { ids[i], ids[j] = ids[j], ids[i] })
	nb := 1 + rnd.Intn(len(ids))
	for _, id := range ids[:nb] {
		rc.Blobs[id] = otBlobPool[id]
		if rnd.Intn(8) == 0 {
			rc.Blobs[id+"x"] = otBlobPool[id] // a second identifier for the same bytes
		}
	}
	bids := otKeys(rc.Blobs)
	pickBlob := func() string { return bids[rnd.Intn(len(bids))] }
	nm := rnd.Intn(9)
	if fault != "" && fault != "badtag" && nm < 2 {
		nm = 2 + rnd.Intn(5)
	}
	var mids []string
	depth := map[string]int{}
	for _, k := range rnd.Perm(nm) {
		id := fmt.Sprintf("m%d", k)
		m := otMan{Config: pickBlob(), Layers: []string{}, Subject: "-", Ann: id}
		for j := rnd.Intn(4); j > 0; j-- {
			m.Layers = append(m.Layers, pickBlob())
		}
		if rnd.Intn(4) == 0 {
			m.Ann = "" // manifests with equal fields are then the same content
		}
		if len(mids) > 0 && rnd.Intn(2) == 0 {
			if s := mids[rnd.Intn(len(mids))]; depth[s] < 4 {
				m.Subject = s
				depth[id] = depth[s] + 1
			}
		}
		rc.Mans[id] = m
		mids = append(mids, id)
	}
	for j := rnd.Intn(4); j > 0 && len(mids) > 0; j-- {
		rc.Tags[otTagPool[rnd.Intn(len(otTagPool))]] = mids[rnd.Intn(len(mids))]
	}
	set := func(id string, f func(m *otMan)) {
		m := rc.Mans[id]
		f(&m)
		rc.Mans[id] = m
	}
	switch fault {
	case "self":
		id := mids[rnd.Intn(len(mids))]
		set(id, func(m *otMan) { m.Subject = id })
	case "cycle":
		k := 2 + rnd.Intn(2)
		if k > len(mids) {
			k = len(mids)
		}
		for i := 0; i < k; i++ {
			next := mids[(i+1)%k]
			set(mids[i], func(m *otMan) { m.Subject = next })
		}
	case "unknown":
		set(mids[rnd.Intn(len(mids))], func(m *otMan) { m.Subject = "nosuch" })
	case "blobsubj":
		set(mids[rnd.Intn(len(mids))], func(m *otMan) { m.Subject = pickBlob() })
	case "digestsubj":
		// a well-formed digest is not an identifier either
		set(mids[rnd.Intn(len(mids))], func(m *otMan) { m.Subject = string(digest.FromString("x")) })
	case "badtag":
		rc.Tags[otTagPool[rnd.Intn(len(otTagPool))]] = "nosuch"
	case "badblob":
		set(mids[rnd.Intn(len(mids))], func(m *otMan) {
			if rnd.Intn(2) == 0 || len(m.Layers) == 0 {
				m.Config = "nosuchblob"
			} else {
				m.Layers[rnd.Intn(len(m.Layers))] = "nosuchblob"
			}
		})
	}
	return rc
}

func otRandCase(rnd *rand.Rand, badblobs bool) otCase {
	c := otCase{Src: "rand", Repos: map[string]otRepo{}}
	perm := rnd.Perm(len(otRepoPool))
	nr := 1 + rnd.Intn(3)
	faulty := -1
	fault := ""
	if rnd.Intn(4) == 0 {
		faulty = rnd.Intn(nr)
		faults := []string{"self", "cycle", "unknown", "blobsubj", "digestsubj", "badtag", "badtag"}
		if badblobs {
			faults = append(faults, "badblob", "badblob")
		}
		fault = faults[rnd.Intn(len(faults))]
	}
	for i := 0; i < nr; i++ {
		f := ""
		if i == faulty {
			f = fault
		}
		c.Repos[otRepoPool[perm[i]]] = otRandRepo(rnd, f)
	}
	return c
}

func otReadCases(path string, fromTrace bool) ([]otCase, error) {
	f, err := os.Open(path)
	if err != nil {
		return nil, err
	}
	defer f.Close()
	sc := bufio.NewScanner(f)
	sc.Buffer(make([]byte, 1<<20), 1<<28)
	var out []otCase
	for sc.Scan() {
		if len(bytes.TrimSpace(sc.Bytes())) == 0 {
			continue
		}
		if fromTrace {
			var e struct {
				Op   string  `json:"op"`
				Case *otCase `json:"case"`
			}
			if err := json.Unmarshal(sc.Bytes(), &e); err != nil {
				return nil, err
			}
			if e.Op == "reset" && e.Case != nil {
				out = append(out, *e.Case)
			}
			continue
		}
		var c otCase
		if err := json.Unmarshal(sc.Bytes(), &c); err != nil {
			return nil, fmt.Errorf("case: %v", err)
		}
		out = append(out, c)
	}
	return out, sc.Err()
}

func ociTestCmd(args []string) error {
	fs := flag.NewFlagSet("ocitest", flag.ExitOnError)
	seed := fs.Int64("seed", 1, "seed for the generated contents")
	n := fs.Int("n", 0, "number of generated contents")
	outp := fs.String("out", "", "trace file")
	cases := fs.String("cases", "", "file with one content per line (exported by TLC, converted by the check)")
	replay := fs.String("replay", "", "re-execute the contents stored in the reset lines of this trace file")
	maxContents := fs.Int("maxcontents", 350, "stop generating contents once the catalogue holds this many blobs and manifests")
	badblobs := fs.Bool("badblobs", false, "generated contents may name a config/layer identifier that is not a blob")
	fs.Parse(args)
	var all []otCase
	if *replay != "" {
		cs, err := otReadCases(*replay, true)
		if err != nil {
			return err
		}
		all = append(all, cs...)
	}
	if *cases != "" {
		cs, err := otReadCases(*cases, false)
		if err != nil {
			return err
		}
		all = append(all, cs...)
	}
	// (a) first run: the catalogue
	oc := &otCatalog{cat: &Catalog{Uploads: []string{"u1"}}}
	oc.blobID("") // every catalogue has the empty blob
	for _, c := range all {
		oc.learn(c)
	}
	// generated contents: as many as asked for, while the catalogue stays small enough to be one TLA+ expression
	rnd := rand.New(rand.NewSource(*seed))
	for i := 0; i < *n && len(oc.cat.Contents) < *maxContents; i++ {
		c := otRandCase(rnd, *badblobs)
		all = append(all, c)
		oc.learn(c)
	}
	oc.finish()
	repos, tags := map[string]bool{}, map[string]bool{}
	for i := range all {
		for r, rc := range all[i].Repos {
			repos[r] = true
			for t := range rc.Tags {
				tags[t] = true
			}
		}
	}
	oc.cat.Repos, oc.cat.Tags = otKeys(repos), otKeys(tags)
	if len(oc.cat.Repos) == 0 {
		oc.cat.Repos = []string{"r1"}
	}
	if len(oc.cat.Tags) == 0 {
		oc.cat.Tags = []string{"t1"}
	}
	of, err := os.Create(*outp)
	if err != nil {
		return err
	}
	defer of.Close()
	bw := bufio.NewWriterSize(of, 1<<20)
	defer bw.Flush()
	enc := json.NewEncoder(bw)
	hdr := oc.cat.header()
	hdr["catmeta"] = map[string]any{"kind": "ocitest"}
	enc.Encode(hdr)
	// (b), (c)
	for i, c := range all {
		otRun(enc, oc.cat, c, oc.learned[i])
	}
	fmt.Printf("{\"scenarios\":%d,\"contents\":%d}\n", len(all), len(oc.cat.Contents))
	return nil
}
