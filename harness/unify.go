package main

import (
	"bufio"
	"bytes"
	"context"
	"encoding/json"
	"flag"
	"fmt"
	"io"
	"math/rand"
	"os"
	"sort"
	"sync"
	"time"

	"cuelabs.dev/go/oci/ociregistry"
	"cuelabs.dev/go/oci/ociregistry/ocimem"
	"cuelabs.dev/go/oci/ociregistry/ociunify"
)

func init() { commands["unify"] = unifyCmd }

// C15.  Scenarios for ociunify.New(m0, m1, policy) over two in-memory registries.  A step is
// a registry call made either through the unifier ("u") or directly on one member ("m0",
// "m1": that is how the members come to differ).  After every step both members are
// projected (snap lines).  Every scenario is executed under both read policies.

type UStep struct {
	Via string `json:"via"`
	Op  Op     `json:"op"`
	// WF[i]: member i fails this call (made through the unifier) by itself: it takes the call -
	// a pushed body is read to the end - stores nothing and answers DENIED.
	WF [2]bool `json:"wf"`
	// First: the member that answers first (the other answers only after it); -1: not controlled.
	First int `json:"first"`
}

// faultWriter sits between the unifier and a member.  For the call it is armed for it injects
// the failure and/or holds its answer back until the other member has answered.
type faultWriter struct {
	ociregistry.Interface
	idx int
	st  *faultState
}

type faultState struct {
	mu       sync.Mutex
	armed    bool
	wf       [2]bool
	first    int
	answered [2]chan struct{}
}

func (st *faultState) arm(wf [2]bool, first int) {
	st.mu.Lock()
	defer st.mu.Unlock()
	st.armed, st.wf, st.first = true, wf, first
	st.answered = [2]chan struct{}{make(chan struct{}), make(chan struct{})}
}

func (st *faultState) disarm() {
	st.mu.Lock()
	defer st.mu.Unlock()
	st.armed = false
}

var errInjectedWrite = fmt.Errorf("injected member failure: %w", ociregistry.ErrDenied)

// around runs one replicated write on member f.idx: do is the member's own method; consume
// reads a pushed body to the end (what a member does that fails at commit time).
func (f faultWriter) around(do func() error, consume func()) error {
	st := f.st
	st.mu.Lock()
	armed, fail, first, answered := st.armed, st.wf[f.idx], st.first, st.answered
	st.mu.Unlock()
	if !armed {
		return do()
	}
	var err error
	if fail {
		if consume != nil {
			consume()
		}
		err = errInjectedWrite
	} else {
		err = do()
	}
	if first >= 0 && first != f.idx {
		// the other member answers first; give its answer the time to reach the unifier
		select {
		case <-answered[first]:
		case <-time.After(2 * time.Second):
		}
		time.Sleep(300 * time.Microsecond)
	}
	// (the same member may be called twice in one step by a defective unifier)
	st.mu.Lock()
	select {
	case <-answered[f.idx]:
	default:
		close(answered[f.idx])
	}
	st.mu.Unlock()
	return err
}

func (f faultWriter) PushBlob(ctx context.Context, repo string, desc ociregistry.Descriptor, r io.Reader) (d ociregistry.Descriptor, err error) {
	err = f.around(func() (e error) { d, e = f.Interface.PushBlob(ctx, repo, desc, r); return }, func() { io.Copy(io.Discard, r) })
	return
}
func (f faultWriter) PushManifest(ctx context.Context, repo, tag string, contents []byte, mediaType string) (d ociregistry.Descriptor, err error) {
	err = f.around(func() (e error) { d, e = f.Interface.PushManifest(ctx, repo, tag, contents, mediaType); return }, nil)
	return
}
func (f faultWriter) MountBlob(ctx context.Context, from, to string, dg ociregistry.Digest) (d ociregistry.Descriptor, err error) {
	err = f.around(func() (e error) { d, e = f.Interface.MountBlob(ctx, from, to, dg); return }, nil)
	return
}
func (f faultWriter) DeleteBlob(ctx context.Context, repo string, dg ociregistry.Digest) error {
	return f.around(func() error { return f.Interface.DeleteBlob(ctx, repo, dg) }, nil)
}
func (f faultWriter) DeleteManifest(ctx context.Context, repo string, dg ociregistry.Digest) error {
	return f.around(func() error { return f.Interface.DeleteManifest(ctx, repo, dg) }, nil)
}
func (f faultWriter) DeleteTag(ctx context.Context, repo, name string) error {
	return f.around(func() error { return f.Interface.DeleteTag(ctx, repo, name) }, nil)
}

// The chunked upload: the writer a member hands out is wrapped too, so that ONE call of its
// Write / Close / Commit / Cancel can be made to fail (the member is not contacted: nothing
// happens to its session) - the caller may then call again on the same unified writer.
type faultBlobWriter struct {
	ociregistry.BlobWriter
	f faultWriter
}

func (f faultWriter) PushBlobChunked(ctx context.Context, repo string, chunkSize int) (ociregistry.BlobWriter, error) {
	w, err := f.Interface.PushBlobChunked(ctx, repo, chunkSize)
	if err != nil {
		return nil, err
	}
	return &faultBlobWriter{BlobWriter: w, f: f}, nil
}
func (f faultWriter) PushBlobChunkedResume(ctx context.Context, repo, id string, offset int64, chunkSize int) (ociregistry.BlobWriter, error) {
	w, err := f.Interface.PushBlobChunkedResume(ctx, repo, id, offset, chunkSize)
	if err != nil {
		return nil, err
	}
	return &faultBlobWriter{BlobWriter: w, f: f}, nil
}
func (w *faultBlobWriter) Write(p []byte) (n int, err error) {
	err = w.f.around(func() (e error) { n, e = w.BlobWriter.Write(p); return }, nil)
	return
}
func (w *faultBlobWriter) Close() error  { return w.f.around(w.BlobWriter.Close, nil) }
func (w *faultBlobWriter) Cancel() error { return w.f.around(w.BlobWriter.Cancel, nil) }
func (w *faultBlobWriter) Commit(dg ociregistry.Digest) (d ociregistry.Descriptor, err error) {
	err = w.f.around(func() (e error) { d, e = w.BlobWriter.Commit(dg); return }, nil)
	return
}

func isFaultable(op string) bool {
	switch op {
	case "Write", "Close", "Commit", "Cancel":
		return true
	}
	return isContentWrite(op)
}

type ListFault struct {
	K    int    `json:"k"`
	Code string `json:"code"` // "" = none
}

type UScenario struct {
	Kind  string       `json:"kind"`
	Imm   bool         `json:"imm"`
	LF    [2]ListFault `json:"lf"`
	Steps []UStep      `json:"steps"`
}

// faultLister makes a member's listings fail: at most k items are passed on, then the
// error.  (An error of the member itself is passed on unchanged.)
type faultLister struct {
	ociregistry.Interface
	k   int
	err error
}

func faultSeq[T any](it ociregistry.Seq[T], k int, err error) ociregistry.Seq[T] {
	return func(yield func(T, error) bool) {
		n := 0
		over := false
		it(func(x T, e error) bool {
			if e != nil {
				over = true
				yield(x, e)
				return false
			}
			if n >= k {
				return false
			}
			n++
			if !yield(x, nil) {
				over = true
				return false
			}
			return true
		})
		if !over {
			yield(*new(T), err)
		}
	}
}

func (f faultLister) Repositories(ctx context.Context, startAfter string) ociregistry.Seq[string] {
	return faultSeq(f.Interface.Repositories(ctx, startAfter), f.k, f.err)
}
func (f faultLister) Tags(ctx context.Context, repo, startAfter string) ociregistry.Seq[string] {
	return faultSeq(f.Interface.Tags(ctx, repo, startAfter), f.k, f.err)
}
func (f faultLister) Referrers(ctx context.Context, repo string, d ociregistry.Digest, at string) ociregistry.Seq[ociregistry.Descriptor] {
	return faultSeq(f.Interface.Referrers(ctx, repo, d, at), f.k, f.err)
}

func faultErr(code string) error {
	switch code {
	case "NAME_UNKNOWN":
		return fmt.Errorf("injected: %w", ociregistry.ErrNameUnknown)
	case "DENIED":
		return fmt.Errorf("injected: %w", ociregistry.ErrDenied)
	case "UNAUTHORIZED":
		return fmt.Errorf("injected: %w", ociregistry.ErrUnauthorized)
	}
	panic("unknown fault code " + code)
}

// urun executes scenarios and writes the trace.
type urun struct {
	cat *Catalog
	out *bufio.Writer
	buf bytes.Buffer
}

// line moves the event the world just encoded into the trace, with one more field in front.
func (u *urun) line(field string) {
	b := u.buf.Bytes()
	if len(b) > 0 && b[0] == '{' {
		u.out.WriteString("{" + field + ",")
		u.out.Write(b[1:])
	}
	u.buf.Reset()
}

func (u *urun) exec(sc UScenario, pol string) {
	ctx := context.Background()
	mems := [2]*ocimem.Registry{
		ocimem.NewWithConfig(&ocimem.Config{ImmutableTags: sc.Imm}),
		ocimem.NewWithConfig(&ocimem.Config{ImmutableTags: sc.Imm}),
	}
	var wrapped [2]ociregistry.Interface
	for i := range mems {
		wrapped[i] = mems[i]
		if sc.LF[i].Code != "" {
			wrapped[i] = faultLister{Interface: mems[i], k: sc.LF[i].K, err: faultErr(sc.LF[i].Code)}
		}
	}
	policy := ociunify.ReadSequential
	if pol == "conc" {
		policy = ociunify.ReadConcurrent
	}
	fst := &faultState{}
	for i := range wrapped {
		wrapped[i] = faultWriter{Interface: wrapped[i], idx: i, st: fst}
	}
	uni := ociunify.New(wrapped[0], wrapped[1], &ociunify.Options{ReadPolicy: policy})
	enc := json.NewEncoder(&u.buf)
	mk := func(top ociregistry.Interface) *world {
		return &world{cat: u.cat, top: top, writers: map[string]BlobWriterT{}, ids: map[string]string{}, out: enc}
	}
	worlds := map[string]*world{"u": mk(uni), "m0": mk(mems[0]), "m1": mk(mems[1])}
	enc.Encode(ev{"op": "reset", "kind": sc.Kind, "imm": sc.Imm, "pol": pol, "lf": sc.LF})
	u.out.Write(u.buf.Bytes())
	u.buf.Reset()
	for si, st := range sc.Steps {
		w := worlds[st.Via]
		if w == nil {
			panic("bad via " + st.Via)
		}
		controlled := st.Via == "u" && (st.WF != [2]bool{} || st.First >= 0) && isFaultable(st.Op.Op)
		if controlled {
			fst.arm(st.WF, st.First)
		} else {
			st.WF, st.First = [2]bool{}, -1
		}
		w.step(ctx, st.Op)
		fst.disarm()
		u.line(fmt.Sprintf("%q:%q,%q:[%v,%v],%q:%d", "via", st.Via, "wf", st.WF[0], st.WF[1], "first", st.First))
		if sc.Kind == "listing" && !(si == len(sc.Steps)-1 || (st.Via != "u" && sc.Steps[si+1].Via == "u")) {
			continue // a large universe: project the members where the writing ends and at the end
		}
		for i := range mems {
			w.snap1(ctx, mems[i])
			u.line(fmt.Sprintf("%q:%d", "member", i))
		}
	}
}

func isContentWrite(op string) bool {
	switch op {
	case "PushBlob", "PushManifest", "MountBlob", "DeleteBlob", "DeleteManifest", "DeleteTag":
		return true
	}
	return false
}

// pushWithDeps: the pushes that make manifest m (under its natural type) acceptable, then the push itself.
func pushWithDeps(cat *Catalog, r, t, m string) []Op {
	c := cat.byID[m]
	var ops []Op
	for _, b := range c.As[c.Natural].Blobs {
		ops = append(ops, Op{Op: "PushBlob", R: r, C: b, DD: b, DS: len(cat.byID[b].Data)})
	}
	for _, ch := range c.As[c.Natural].Mans {
		if cc := cat.byID[ch[0]]; cc != nil && len(cc.As[cc.Natural].Mans) == 0 {
			for _, b := range cc.As[cc.Natural].Blobs {
				ops = append(ops, Op{Op: "PushBlob", R: r, C: b, DD: b, DS: len(cat.byID[b].Data)})
			}
			ops = append(ops, Op{Op: "PushManifest", R: r, T: "-", C: ch[0], MT: cc.Natural})
		}
	}
	return append(ops, Op{Op: "PushManifest", R: r, T: t, C: m, MT: c.Natural})
}

// divergentPrefix writes the two members directly so that they end up equal, disjoint,
// overlapping or in conflict, item by item.
func divergentPrefix(rnd *rand.Rand, cat *Catalog, hot string) []UStep {
	var steps []UStep
	direct := func(via string, ops ...Op) {
		for _, o := range ops {
			steps = append(steps, UStep{Via: via, Op: o, First: -1})
		}
	}
	// how likely an item goes to both members: equal-heavy, disjoint-heavy, mixed, one member only
	style := rnd.Intn(4)
	class := func() string {
		x := rnd.Intn(10)
		switch style {
		case 0:
			if x < 8 {
				return "both"
			}
		case 1:
			if x < 1 {
				return "both"
			}
		case 2:
			if x < 4 {
				return "both"
			}
		case 3:
			if x < 9 {
				return "m0"
			}
			return "skip"
		}
		return []string{"m0", "m1", "m0", "m1", "skip"}[rnd.Intn(5)]
	}
	if style == 3 && rnd.Intn(2) == 0 {
		// the other member is the populated one
		defer func() {
			for i := range steps {
				if steps[i].Via == "m0" {
					steps[i].Via = "m1"
				}
			}
		}()
	}
	for _, op := range randOps(rnd, cat, 14+rnd.Intn(14), "manifest", true) {
		if !isContentWrite(op.Op) {
			continue
		}
		switch c := class(); c {
		case "both":
			direct("m0", op)
			direct("m1", op)
		case "m0", "m1":
			direct(c, op)
		}
	}
	var mans []string
	for _, c := range cat.Contents {
		if c.Man {
			mans = append(mans, c.ID)
		}
	}
	pick := func(xs []string) string { return xs[rnd.Intn(len(xs))] }
	if style != 3 {
		for _, t := range cat.Tags {
			x, y := pick(mans), pick(mans)
			switch rnd.Intn(6) {
			case 0: // the same manifest under the tag in both
				direct("m0", pushWithDeps(cat, hot, t, x)...)
				direct("m1", pushWithDeps(cat, hot, t, x)...)
			case 1, 2: // conflict
				direct("m0", pushWithDeps(cat, hot, t, x)...)
				direct("m1", pushWithDeps(cat, hot, t, y)...)
			case 3:
				direct(pick([]string{"m0", "m1"}), pushWithDeps(cat, hot, t, x)...)
			}
		}
		// now and then take something away from one member again (dangling tags in mutable mode)
		for i := rnd.Intn(3); i > 0; i-- {
			switch rnd.Intn(3) {
			case 0:
				direct(pick([]string{"m0", "m1"}), Op{Op: "DeleteManifest", R: hot, C: pick(mans)})
			case 1:
				direct(pick([]string{"m0", "m1"}), Op{Op: "DeleteTag", R: hot, T: pick(cat.Tags)})
			case 2:
				c := pick(mans)
				direct(pick([]string{"m0", "m1"}), Op{Op: "PushManifest", R: hot, T: "-", C: c, MT: pick([]string{"other", "other2", cat.byID[c].Natural})})
			}
		}
	}
	return steps
}

// readSweep: reads and listings of (a sample of) everything in the universe.
func readSweep(rnd *rand.Rand, cat *Catalog, hot string, dense bool) []UStep {
	var ops []Op
	repos := []string{hot}
	if other := cat.Repos[rnd.Intn(len(cat.Repos))]; other != hot {
		repos = append(repos, other)
	}
	keep := func() bool { return dense || rnd.Intn(3) == 0 }
	for _, r := range repos {
		for _, t := range cat.Tags {
			ops = append(ops, Op{Op: "ResolveTag", R: r, T: t}, Op{Op: "GetTag", R: r, T: t})
		}
		for _, c := range cat.Contents {
			if !keep() && r != hot {
				continue
			}
			if c.Man {
				ops = append(ops, Op{Op: "ResolveManifest", R: r, C: c.ID})
				if keep() {
					ops = append(ops, Op{Op: "GetManifest", R: r, C: c.ID})
				}
				if keep() {
					ops = append(ops, Op{Op: "Referrers", R: r, C: c.ID})
				}
			} else {
				ops = append(ops, Op{Op: "ResolveBlob", R: r, C: c.ID})
				if keep() {
					ops = append(ops, Op{Op: "GetBlob", R: r, C: c.ID})
				}
				if keep() && !containsBlock(c.Elems) {
					n := len(c.Elems)
					ops = append(ops, Op{Op: "GetBlobRange", R: r, C: c.ID, O0: rnd.Intn(n+2) - 0, O1: rnd.Intn(n+3) - 1})
				}
			}
		}
		ops = append(ops, Op{Op: "ListTags", R: r})
		if keep() {
			ops = append(ops, Op{Op: "ListTags", R: r, Start: cat.Tags[rnd.Intn(len(cat.Tags))]}, Op{Op: "ListTags", R: r, Start: "m"})
		}
	}
	ops = append(ops, Op{Op: "ListRepos"}, Op{Op: "ListRepos", Start: cat.Repos[rnd.Intn(len(cat.Repos))]}, Op{Op: "ListRepos", Start: "b0"})
	rnd.Shuffle(len(ops), func(i, j int) { ops[i], ops[j] = ops[j], ops[i] })
	steps := make([]UStep, len(ops))
	for i, o := range ops {
		steps[i] = UStep{Via: "u", Op: o, First: -1}
	}
	return steps
}

// resumeUpload: one chunked upload through the unifier, interrupted and resumed.
func resumeUpload(rnd *rand.Rand, cat *Catalog, r, u string) []UStep {
	var blobs []*Content
	for _, c := range cat.Contents {
		if !c.Man && len(c.Elems) >= 2 {
			blobs = append(blobs, c)
		}
	}
	b := blobs[rnd.Intn(len(blobs))]
	cut := 1 + rnd.Intn(len(b.Elems)-1)
	size := len(elemsToBytes(b.Elems[:cut]))
	off := size
	switch rnd.Intn(6) {
	case 0, 1:
		if size != 1 {
			off = -1
		}
	case 2:
		off = size + 1 // a wrong offset: the next write must be refused by both members
	}
	ops := []Op{
		{Op: "PushBlobChunked", R: r, U: u, Chunk: pick3(rnd)},
		{Op: "Write", R: r, U: u, Data: b.Elems[:cut]},
		{Op: "UpSize", R: r, U: u},
		{Op: "Close", R: r, U: u},
		{Op: "Resume", R: r, U: u, Off: off, Chunk: pick3(rnd)},
		{Op: "Write", R: r, U: u, Data: b.Elems[cut:]},
		{Op: "UpSize", R: r, U: u},
	}
	if rnd.Intn(3) == 0 {
		ops = append(ops, Op{Op: "Close", R: r, U: u}, Op{Op: "Resume", R: r, U: u, Off: -1, Chunk: 0})
	}
	if rnd.Intn(8) == 0 {
		ops = append(ops, Op{Op: "Cancel", R: r, U: u})
	}
	ops = append(ops, Op{Op: "Commit", R: r, U: u, DD: b.ID}, Op{Op: "ResolveBlob", R: r, C: b.ID}, Op{Op: "GetBlob", R: r, C: b.ID})
	steps := make([]UStep, len(ops))
	for i, o := range ops {
		steps[i] = UStep{Via: "u", Op: o, First: -1}
	}
	return steps
}

// asymWrites makes sure the members differ on a few items, then writes those items through
// the unifier: one member can do it, the other cannot.
func asymWrites(rnd *rand.Rand, cat *Catalog, hot string) []UStep {
	var steps []UStep
	a, b := "m0", "m1"
	if rnd.Intn(2) == 0 {
		a, b = b, a
	}
	add := func(via string, ops ...Op) {
		for _, o := range ops {
			steps = append(steps, UStep{Via: via, Op: o, First: -1})
		}
	}
	var blobs, mans []string
	for _, c := range cat.Contents {
		if c.Man {
			mans = append(mans, c.ID)
		} else {
			blobs = append(blobs, c.ID)
		}
	}
	bl := blobs[rnd.Intn(len(blobs))]
	x, y := mans[rnd.Intn(len(mans))], mans[rnd.Intn(len(mans))]
	// a blob only a has: deleting it through the unifier
	add(a, Op{Op: "PushBlob", R: hot, C: bl, DD: bl, DS: len(cat.byID[bl].Data)})
	add(b, Op{Op: "DeleteBlob", R: hot, C: bl})
	add("u", Op{Op: "DeleteBlob", R: hot, C: bl}, Op{Op: "ResolveBlob", R: hot, C: bl})
	// a manifest only a has
	add(a, pushWithDeps(cat, hot, "-", x)...)
	add(b, Op{Op: "DeleteManifest", R: hot, C: x})
	add("u", Op{Op: "DeleteManifest", R: hot, C: x}, Op{Op: "ResolveManifest", R: hot, C: x})
	// what a manifest refers to is only in a: pushing it through the unifier
	deps := pushWithDeps(cat, hot, "-", y)
	add(a, deps[:len(deps)-1]...)
	t := "-"
	if rnd.Intn(2) == 0 {
		t = cat.Tags[rnd.Intn(len(cat.Tags))]
	}
	add("u", Op{Op: "PushManifest", R: hot, T: t, C: y, MT: cat.byID[y].Natural}, Op{Op: "ResolveManifest", R: hot, C: y})
	// mounting a blob only one member has in the source repository
	other := cat.Repos[rnd.Intn(len(cat.Repos))]
	add(b, Op{Op: "PushBlob", R: other, C: bl, DD: bl, DS: len(cat.byID[bl].Data)})
	add("u", Op{Op: "MountBlob", From: other, R: hot, C: bl})
	return steps
}

// faultyWrites: replicated writes through the unifier during which one member fails by itself,
// answering before or after the healthy one.  Every combination for PushBlob (the one call
// whose result handling depends on the order of the answers), a sample for the others.
func faultyWrites(rnd *rand.Rand, cat *Catalog, hot string) []UStep {
	var steps []UStep
	var blobs, mans []string
	for _, c := range cat.Contents {
		if c.Man {
			mans = append(mans, c.ID)
		} else {
			blobs = append(blobs, c.ID)
		}
	}
	u := func(o Op, bad, first int) {
		st := UStep{Via: "u", Op: o, First: first}
		if bad >= 0 {
			st.WF[bad] = true
		}
		steps = append(steps, st)
	}
	perm := rnd.Perm(len(blobs))
	k := 0
	for bad := 0; bad < 2; bad++ {
		for first := 0; first < 2; first++ {
			b := blobs[perm[k%len(perm)]]
			k++
			u(Op{Op: "PushBlob", R: hot, C: b, DD: b, DS: len(cat.byID[b].Data)}, bad, first)
			u(Op{Op: "ResolveBlob", R: hot, C: b}, -1, -1)
		}
	}
	// an order of answers without any failure
	b := blobs[perm[k%len(perm)]]
	u(Op{Op: "PushBlob", R: hot, C: b, DD: b, DS: len(cat.byID[b].Data)}, -1, rnd.Intn(2))
	m := mans[rnd.Intn(len(mans))]
	for _, o := range pushWithDeps(cat, hot, cat.Tags[rnd.Intn(len(cat.Tags))], m) {
		bad := -1
		if o.Op == "PushManifest" {
			bad = rnd.Intn(2)
		}
		u(o, bad, rnd.Intn(3)-1)
	}
	u(Op{Op: "ResolveManifest", R: hot, C: m}, -1, -1)
	u(Op{Op: "PushManifest", R: hot, T: "-", C: m, MT: cat.byID[m].Natural}, -1, -1)
	u(Op{Op: "DeleteManifest", R: hot, C: m}, rnd.Intn(2), rnd.Intn(3)-1)
	u(Op{Op: "DeleteTag", R: hot, T: cat.Tags[rnd.Intn(len(cat.Tags))]}, rnd.Intn(2), rnd.Intn(3)-1)
	u(Op{Op: "DeleteBlob", R: hot, C: b}, rnd.Intn(2), rnd.Intn(3)-1)
	u(Op{Op: "MountBlob", From: hot, R: cat.Repos[rnd.Intn(len(cat.Repos))], C: blobs[perm[0]]}, rnd.Intn(2), rnd.Intn(3)-1)
	return steps
}

// faultyUpload: chunked uploads through the unifier during which ONE member's writer fails one
// call; the caller repeats the call on the same unified writer, then reads the blob back.
func faultyUpload(rnd *rand.Rand, cat *Catalog, r string, ids []string) []UStep {
	var steps []UStep
	if len(ids) < 3 {
		return nil // the history before has used up the sessions
	}
	var blobs []*Content
	for _, c := range cat.Contents {
		if !c.Man && len(c.Elems) >= 1 {
			blobs = append(blobs, c)
		}
	}
	u := func(o Op, bad, first int) {
		st := UStep{Via: "u", Op: o, First: first}
		if bad >= 0 {
			st.WF[bad] = true
		}
		steps = append(steps, st)
	}
	// 1. the commit fails on one member, is repeated, and the blob is read back
	b := blobs[rnd.Intn(len(blobs))]
	id := ids[0]
	u(Op{Op: "PushBlobChunked", R: r, U: id, Chunk: pick3(rnd)}, -1, -1)
	u(Op{Op: "Write", R: r, U: id, Data: b.Elems}, -1, -1)
	if rnd.Intn(2) == 0 {
		u(Op{Op: "Close", R: r, U: id}, rnd.Intn(2), rnd.Intn(3)-1)
		u(Op{Op: "Close", R: r, U: id}, -1, -1)
		u(Op{Op: "Resume", R: r, U: id, Off: -1, Chunk: 0}, -1, -1)
	}
	u(Op{Op: "Commit", R: r, U: id, DD: b.ID}, rnd.Intn(2), rnd.Intn(3)-1)
	u(Op{Op: "ResolveBlob", R: r, C: b.ID}, -1, -1)
	u(Op{Op: "Commit", R: r, U: id, DD: b.ID}, -1, -1)
	u(Op{Op: "ResolveBlob", R: r, C: b.ID}, -1, -1)
	u(Op{Op: "GetBlob", R: r, C: b.ID}, -1, -1)
	// 2. a write fails on one member and is repeated: the other member has the piece twice
	b = blobs[rnd.Intn(len(blobs))]
	id = ids[1]
	u(Op{Op: "PushBlobChunked", R: r, U: id, Chunk: pick3(rnd)}, -1, -1)
	u(Op{Op: "Write", R: r, U: id, Data: b.Elems}, rnd.Intn(2), rnd.Intn(3)-1)
	u(Op{Op: "Write", R: r, U: id, Data: b.Elems}, -1, -1)
	if rnd.Intn(2) == 0 {
		// 3. ... or the upload is abandoned, and Cancel fails on one member first
		u(Op{Op: "Cancel", R: r, U: id}, rnd.Intn(2), rnd.Intn(3)-1)
		u(Op{Op: "Cancel", R: r, U: id}, -1, -1)
	}
	u(Op{Op: "Commit", R: r, U: id, DD: b.ID}, -1, -1)
	u(Op{Op: "ResolveBlob", R: r, C: b.ID}, -1, -1)
	// 4. a write fails on one member while the other appends: the members have diverged; the
	// caller closes and resumes, where it believes the upload stands or "wherever you are"
	var long []*Content
	for _, c := range blobs {
		if len(c.Elems) >= 2 {
			long = append(long, c)
		}
	}
	b = long[rnd.Intn(len(long))]
	id = ids[2]
	cut := 1 + rnd.Intn(len(b.Elems)-1)
	u(Op{Op: "PushBlobChunked", R: r, U: id, Chunk: pick3(rnd)}, -1, -1)
	u(Op{Op: "Write", R: r, U: id, Data: b.Elems[:cut]}, -1, -1)
	u(Op{Op: "Write", R: r, U: id, Data: b.Elems[cut:]}, rnd.Intn(2), rnd.Intn(3)-1)
	u(Op{Op: "Close", R: r, U: id}, -1, -1)
	off := len(elemsToBytes(b.Elems[:cut]))
	if rnd.Intn(2) == 0 {
		off = -1
	}
	u(Op{Op: "Resume", R: r, U: id, Off: off, Chunk: pick3(rnd)}, -1, -1)
	u(Op{Op: "Write", R: r, U: id, Data: b.Elems[cut:]}, -1, -1)
	u(Op{Op: "Commit", R: r, U: id, DD: b.ID}, -1, -1)
	u(Op{Op: "ResolveBlob", R: r, C: b.ID}, -1, -1)
	return steps
}

// freeUploads picks n upload ids no step so far has named, from the back of the universe,
// leaving the first four (later histories open their sessions there) and the last three (the
// interrupted uploads) alone.  nil if there are not enough.
func freeUploads(steps []UStep, cat *Catalog, n int) []string {
	used := map[string]bool{}
	for _, st := range steps {
		used[st.Op.U] = true
	}
	var out []string
	for i := len(cat.Uploads) - 4; i >= 4 && len(out) < n; i-- {
		if !used[cat.Uploads[i]] {
			out = append(out, cat.Uploads[i])
		}
	}
	if len(out) < n {
		return nil
	}
	return out
}

// oneSidedRepos (always, first thing, on empty members): content that only member 1 holds, in a
// repository member 0 does not know at all, read by digest through the unifier; then the mirror
// image in another repository.
func oneSidedRepos(rnd *rand.Rand, cat *Catalog) []UStep {
	var steps []UStep
	var blobs, mans []string
	for _, c := range cat.Contents {
		if c.Man && c.Natural == "image" && c.As["image"].WF && c.As["image"].Subject == "-" {
			mans = append(mans, c.ID)
		} else if !c.Man && len(c.Elems) >= 1 && !containsBlock(c.Elems) {
			blobs = append(blobs, c.ID)
		}
	}
	perm := rnd.Perm(len(cat.Repos))
	for side, via := range []string{"m1", "m0"} {
		r := cat.Repos[perm[side%len(perm)]]
		b := blobs[rnd.Intn(len(blobs))]
		steps = append(steps, UStep{Via: via, Op: Op{Op: "PushBlob", R: r, C: b, DD: b, DS: len(cat.byID[b].Data)}, First: -1})
		reads := []Op{{Op: "GetBlob", R: r, C: b}, {Op: "ResolveBlob", R: r, C: b}, {Op: "GetBlobRange", R: r, C: b, O0: 0, O1: 1}}
		if len(mans) > 0 {
			m := mans[rnd.Intn(len(mans))]
			for _, o := range pushWithDeps(cat, r, "-", m) {
				steps = append(steps, UStep{Via: via, Op: o, First: -1})
			}
			reads = append(reads, Op{Op: "GetManifest", R: r, C: m}, Op{Op: "ResolveManifest", R: r, C: m})
		}
		steps = append(steps, viaU(reads)...)
	}
	return steps
}

func viaU(ops []Op) []UStep {
	steps := make([]UStep, len(ops))
	for i, o := range ops {
		steps[i] = UStep{Via: "u", Op: o, First: -1}
	}
	return steps
}

func genUnifyScenario(rnd *rand.Rand, cat *Catalog, i int) UScenario {
	sc := UScenario{Imm: rnd.Intn(3) == 0}
	hot := cat.Repos[rnd.Intn(len(cat.Repos))]
	switch i % 5 {
	case 0, 1: // the union view over different members, then writes through the unifier
		sc.Kind = "view"
		sc.Steps = oneSidedRepos(rnd, cat)
		sc.Steps = append(sc.Steps, divergentPrefix(rnd, cat, hot)...)
		sc.Steps = append(sc.Steps, readSweep(rnd, cat, hot, i%5 == 0)...)
		sc.Steps = append(sc.Steps, asymWrites(rnd, cat, hot)...)
		sc.Steps = append(sc.Steps, faultyWrites(rnd, cat, hot)...)
		sc.Steps = append(sc.Steps, faultyUpload(rnd, cat, hot, freeUploads(sc.Steps, cat, 3))...)
		sc.Steps = append(sc.Steps, viaU(randOps(rnd, cat, 12, "all", true))...)
		if rnd.Intn(2) == 0 {
			sc.Steps = append(sc.Steps, resumeUpload(rnd, cat, hot, cat.Uploads[len(cat.Uploads)-1])...)
		}
	case 2: // replication from equal members
		sc.Kind = "repl"
		prof := []string{"all", "upload", "manifest"}[rnd.Intn(3)]
		sc.Steps = viaU(randOps(rnd, cat, 30, prof, rnd.Intn(3) != 0))
		sc.Steps = append(sc.Steps, faultyWrites(rnd, cat, hot)...)
		sc.Steps = append(sc.Steps, faultyUpload(rnd, cat, hot, freeUploads(sc.Steps, cat, 3))...)
		sc.Steps = append(sc.Steps, viaU(randOps(rnd, cat, 6, "manifest", true))...)
	case 3: // chunked uploads with resume through the unifier
		sc.Kind = "resume"
		if rnd.Intn(2) == 0 {
			sc.Steps = divergentPrefix(rnd, cat, hot)
		}
		// one randOps history (its uploads take ids from the front), cut in three, with an
		// interrupted upload (ids from the back) before each piece
		between := viaU(randOps(rnd, cat, 9, "all", true))
		for k := 0; k < 3; k++ {
			sc.Steps = append(sc.Steps, resumeUpload(rnd, cat, hot, cat.Uploads[len(cat.Uploads)-1-k])...)
			sc.Steps = append(sc.Steps, between[k*len(between)/3:(k+1)*len(between)/3]...)
		}
	case 4: // listings with a member whose lister fails
		sc.Kind = "faulty"
		codes := []string{"DENIED", "NAME_UNKNOWN", "UNAUTHORIZED", ""}
		for m := 0; m < 2; m++ {
			sc.LF[m] = ListFault{K: rnd.Intn(3), Code: codes[rnd.Intn(len(codes))]}
			if sc.LF[m].Code == "" {
				sc.LF[m].K = 0
			}
		}
		sc.Steps = divergentPrefix(rnd, cat, hot)
		var ls []Op
		for _, r := range cat.Repos {
			ls = append(ls, Op{Op: "ListTags", R: r}, Op{Op: "ListTags", R: r, Start: cat.Tags[0]})
		}
		ls = append(ls, Op{Op: "ListRepos"}, Op{Op: "ListRepos", Start: cat.Repos[0]})
		for _, c := range cat.Contents {
			if c.Man {
				ls = append(ls, Op{Op: "Referrers", R: hot, C: c.ID})
			}
		}
		sc.Steps = append(sc.Steps, viaU(ls)...)
	}
	return sc
}

// listCatalog: a universe for listings - 8 repositories, 8 tags, one base manifest and 8
// manifests that refer to it as their subject.
func listCatalog(rnd *rand.Rand) *Catalog {
	cat := &Catalog{Uploads: []string{"u1", "u2"}}
	perm := rnd.Perm(len(repoPool))
	for i := 0; i < 8; i++ {
		cat.Repos = append(cat.Repos, repoPool[perm[i]])
	}
	perm = rnd.Perm(len(tagPool))
	for i := 0; i < 8; i++ {
		cat.Tags = append(cat.Tags, tagPool[perm[i]])
	}
	sort.Strings(cat.Repos)
	sort.Strings(cat.Tags)
	cat.addBlob("lb0", []int{1})
	cat.addBlob("lb1", []int{2, 3})
	cat.addImage("base", "lb0", nil, "-", "-", fmt.Sprintf("base-%d", rnd.Int63()), "", 0)
	for k := 1; k <= 8; k++ {
		cat.addImage(fmt.Sprintf("ref%d", k), "lb0", nil, "base", "image", fmt.Sprintf("ref%d-%d", k, rnd.Int63()), "", 0)
	}
	return cat
}

// listingScenario: the members' listings (repositories, tags of one repository, referrers of
// one subject) diverge in both directions: of the 8 names of each kind at least two are
// private to member 0 and at least two to member 1, the rest in both or in none, interleaved
// in sort order as the draw has it.  swap exchanges the members.
func listingScenario(rnd *rand.Rand, cat *Catalog, swap bool) UScenario {
	sc := UScenario{Kind: "listing"}
	hot := cat.Repos[rnd.Intn(len(cat.Repos))]
	// 4: both, but stored under different media types (image in one, index in the other)
	draw := func(n int) []int { // 0: member 0 only, 1: member 1 only, 2: both, 3: none
		for {
			cl := make([]int, n)
			cnt := [4]int{}
			for i := range cl {
				cl[i] = []int{0, 0, 0, 1, 1, 1, 2, 2, 3, 3}[rnd.Intn(10)]
				cnt[cl[i]]++
			}
			if cnt[0] >= 2 && cnt[1] >= 2 && cnt[2] >= 1 {
				return cl
			}
		}
	}
	direct := func(class int, ops ...Op) {
		for _, via := range [][]string{{"m0"}, {"m1"}, {"m0", "m1"}, {}}[class] {
			for _, o := range ops {
				sc.Steps = append(sc.Steps, UStep{Via: via, Op: o, First: -1})
			}
		}
	}
	blob := func(r, b string) Op { return Op{Op: "PushBlob", R: r, C: b, DD: b, DS: len(cat.byID[b].Data)} }
	direct(2, blob(hot, "lb0"), Op{Op: "PushManifest", R: hot, T: "-", C: "base", MT: "image"})
	// what both members hold, they hold - half of the time - under different media types
	// (the bytes are valid as an image manifest and as an index): still ONE entry of the union
	split := func(o Op) {
		a, b := o, o
		a.MT, b.MT = "image", "index"
		if rnd.Intn(2) == 0 {
			a.MT, b.MT = b.MT, a.MT
		}
		sc.Steps = append(sc.Steps, UStep{Via: "m0", Op: a, First: -1}, UStep{Via: "m1", Op: b, First: -1})
	}
	nsplit := 0
	for i, c := range draw(len(cat.Tags)) {
		o := Op{Op: "PushManifest", R: hot, T: cat.Tags[i], C: "base", MT: "image"}
		if c == 2 && rnd.Intn(2) == 0 {
			split(o)
			continue
		}
		direct(c, o)
	}
	for i, c := range draw(len(cat.Repos)) {
		if cat.Repos[i] != hot {
			direct(c, blob(cat.Repos[i], "lb1"))
		}
	}
	for k, c := range draw(8) {
		o := Op{Op: "PushManifest", R: hot, T: "-", C: fmt.Sprintf("ref%d", k+1), MT: "image"}
		if c == 2 && (nsplit == 0 || rnd.Intn(2) == 0) {
			nsplit++
			split(o)
			continue
		}
		direct(c, o)
	}
	rnd.Shuffle(len(sc.Steps)-4, func(i, j int) { sc.Steps[4+i], sc.Steps[4+j] = sc.Steps[4+j], sc.Steps[4+i] })
	if swap {
		for i := range sc.Steps {
			sc.Steps[i].Via = map[string]string{"m0": "m1", "m1": "m0"}[sc.Steps[i].Via]
		}
	}
	other := cat.Repos[rnd.Intn(len(cat.Repos))]
	ls := []Op{
		{Op: "ListTags", R: hot}, {Op: "ListTags", R: hot, Start: cat.Tags[1+rnd.Intn(4)]}, {Op: "ListTags", R: hot, Start: "m"},
		{Op: "ListRepos"}, {Op: "ListRepos", Start: cat.Repos[rnd.Intn(4)]}, {Op: "ListRepos", Start: "b0"},
		{Op: "Referrers", R: hot, C: "base"}, {Op: "Referrers", R: hot, C: "ref1"},
		{Op: "ListTags", R: other}, {Op: "Referrers", R: other, C: "base"},
	}
	for _, t := range cat.Tags {
		ls = append(ls, Op{Op: "ResolveTag", R: hot, T: t})
	}
	ls = append(ls, Op{Op: "GetTag", R: hot, T: cat.Tags[rnd.Intn(len(cat.Tags))]})
	sc.Steps = append(sc.Steps, viaU(ls)...)
	return sc
}

func unifyCatalog(kind string, seed int64) *Catalog {
	if kind == "mc" {
		return mcCatalog()
	}
	if kind == "list" {
		return listCatalog(rand.New(rand.NewSource(seed)))
	}
	return randCatalog(rand.New(rand.NewSource(seed)), 3, 3, 8, 9, false)
}

func unifyCmd(args []string) error {
	fs := flag.NewFlagSet("unify", flag.ExitOnError)
	seed := fs.Int64("seed", 1, "seed")
	n := fs.Int("n", 10, "number of scenarios (each is run under both read policies)")
	out := fs.String("out", "", "trace file")
	catKind := fs.String("cat", "rand", "catalogue: mc or rand")
	replay := fs.String("replay", "", "re-execute the scenarios of this trace file")
	fs.Parse(args)
	f, err := os.Create(*out)
	if err != nil {
		return err
	}
	defer f.Close()
	bw := bufio.NewWriterSize(f, 1<<20)
	defer bw.Flush()
	total := 0
	if *replay != "" {
		scs, kind, cseed, err := readUnifyReplay(*replay)
		if err != nil {
			return err
		}
		u := &urun{cat: unifyCatalog(kind, cseed), out: bw}
		writeUnifyHeader(bw, u.cat, kind, cseed)
		for _, s := range scs {
			u.exec(s.sc, s.pol)
			total++
		}
		fmt.Printf("{\"scenarios\":%d}\n", total)
		return nil
	}
	u := &urun{cat: unifyCatalog(*catKind, *seed), out: bw}
	writeUnifyHeader(bw, u.cat, *catKind, *seed)
	rnd := rand.New(rand.NewSource(*seed*7919 + 13))
	for i := 0; i < *n; i++ {
		var sc UScenario
		if *catKind == "list" {
			sc = listingScenario(rnd, u.cat, i%2 == 1)
		} else {
			sc = genUnifyScenario(rnd, u.cat, i)
		}
		for _, pol := range []string{"seq", "conc"} {
			u.exec(sc, pol)
			total++
		}
	}
	fmt.Printf("{\"scenarios\":%d}\n", total)
	return nil
}

func writeUnifyHeader(w *bufio.Writer, cat *Catalog, kind string, seed int64) {
	h := cat.header()
	h["op"] = "header"
	h["catkind"] = kind
	h["catseed"] = seed
	b, _ := json.Marshal(h)
	w.Write(b)
	w.WriteByte('\n')
}

type replayScenario struct {
	sc  UScenario
	pol string
}

// readUnifyReplay reads the inputs back from a recorded trace: the catalogue parameters
// from the header, then per reset line one scenario whose steps are the recorded calls.
func readUnifyReplay(path string) ([]replayScenario, string, int64, error) {
	f, err := os.Open(path)
	if err != nil {
		return nil, "", 0, err
	}
	defer f.Close()
	sc := bufio.NewScanner(f)
	sc.Buffer(make([]byte, 1<<20), 1<<28)
	var out []replayScenario
	kind, seed := "rand", int64(1)
	first := true
	for sc.Scan() {
		var e map[string]json.RawMessage
		if err := json.Unmarshal(sc.Bytes(), &e); err != nil {
			return nil, "", 0, err
		}
		var op string
		json.Unmarshal(e["op"], &op)
		if first {
			first = false
			json.Unmarshal(e["catkind"], &kind)
			json.Unmarshal(e["catseed"], &seed)
			continue
		}
		switch op {
		case "reset":
			var r replayScenario
			json.Unmarshal(e["imm"], &r.sc.Imm)
			json.Unmarshal(e["pol"], &r.pol)
			json.Unmarshal(e["lf"], &r.sc.LF)
			json.Unmarshal(e["kind"], &r.sc.Kind)
			out = append(out, r)
		case "snap", "skip":
		default:
			if len(out) == 0 {
				return nil, "", 0, fmt.Errorf("event before the first reset")
			}
			var st UStep
			if err := json.Unmarshal(sc.Bytes(), &st.Op); err != nil {
				return nil, "", 0, err
			}
			if op == "panic" {
				json.Unmarshal(e["inop"], &st.Op.Op)
			}
			json.Unmarshal(e["via"], &st.Via)
			st.First = -1
			json.Unmarshal(e["wf"], &st.WF)
			json.Unmarshal(e["first"], &st.First)
			// the start string is kept; the abstract position must not be applied on top of it
			if st.Op.Start != "" {
				st.Op.StartPos = 0
			}
			last := &out[len(out)-1]
			last.sc.Steps = append(last.sc.Steps, st)
		}
	}
	return out, kind, seed, sc.Err()
}
