package main

// Command "errors" (property C07, specification family OciError).
//
// Per case: build the REAL error value from its abstract tree, make an ociregistry.Funcs
// backend return it from the carrier method, put K real ociclient->ociserver hops
// (httptest servers) on top, call the carrier through the top client and record, at every
// hop level, what the error looks like (errors.Is vector, HTTPError status, Error code and
// detail, message tokenised back into the abstract token structure), plus what a tap
// between each client and its server saw on the wire.  No judging happens here.

import (
	"bufio"
	"bytes"
	"context"
	"encoding/base64"
	"encoding/json"
	"errors"
	"flag"
	"fmt"
	"io"
	"log"
	"math/rand"
	"net/http"
	"net/http/httptest"
	"net/url"
	"os"
	"reflect"
	"strconv"
	"strings"

	"cuelabs.dev/go/oci/ociregistry"
	"cuelabs.dev/go/oci/ociregistry/ociclient"
	"cuelabs.dev/go/oci/ociregistry/ociserver"
	"github.com/opencontainers/go-digest"
)

func init() { commands["errors"] = oeCmd }

// ---------------------------------------------------------------- abstract values

type oeTok struct {
	T string `json:"t"` // S status prefix, C code prefix, M standard message, B base text, E empty, U unknown text
	V string `json:"v"`
}

type oeNode struct {
	K      string   `json:"k"` // std new plain fmt http
	Code   string   `json:"code"`
	Status int      `json:"status"`
	Msg    []oeTok  `json:"msg"`
	Detail string   `json:"detail"` // "none", a name of oeDetails, or "j:<json text>"
	Kids   []oeNode `json:"kids"`
	Resp   bool     `json:"resp"` // http nodes: made from a response (NewHTTPError with a non-nil *http.Response and body)
}

type oeCase struct {
	ID      int    `json:"id"`
	Carrier string `json:"carrier"`
	Hops    int    `json:"hops"`
	Err     oeNode `json:"err"`
	// listing carriers: the backend iterator yields NItems items and THEN the error; Page is
	// the ListPageSize of every client of the stack (0: the default of 1000)
	NItems int `json:"nitems"`
	Page   int `json:"page"`
	// Origin: the far end is not a Funcs backend returning the built value but a NON-CONFORMING
	// registry (a plain http handler) answering every request with the status, code, message and
	// detail of the tree http(resp)[new]; level 0 is what a real ociclient makes of that answer.
	Origin bool `json:"origin"`
}

var oeStd = []ociregistry.Error{
	ociregistry.ErrBlobUnknown, ociregistry.ErrBlobUploadInvalid, ociregistry.ErrBlobUploadUnknown,
	ociregistry.ErrDigestInvalid, ociregistry.ErrManifestBlobUnknown, ociregistry.ErrManifestInvalid,
	ociregistry.ErrManifestUnknown, ociregistry.ErrNameInvalid, ociregistry.ErrNameUnknown,
	ociregistry.ErrSizeInvalid, ociregistry.ErrUnauthorized, ociregistry.ErrDenied,
	ociregistry.ErrUnsupported, ociregistry.ErrTooManyRequests, ociregistry.ErrRangeInvalid,
}

// The harness's own spelling of the 15 standard codes (the concretisation of abstract codes).
var oeStdCodes = []string{
	"BLOB_UNKNOWN", "BLOB_UPLOAD_INVALID", "BLOB_UPLOAD_UNKNOWN", "DIGEST_INVALID",
	"MANIFEST_BLOB_UNKNOWN", "MANIFEST_INVALID", "MANIFEST_UNKNOWN", "NAME_INVALID",
	"NAME_UNKNOWN", "SIZE_INVALID", "UNAUTHORIZED", "DENIED", "UNSUPPORTED",
	"TOOMANYREQUESTS", "RANGE_INVALID",
}

var oeDetails = map[string]string{
	"d1": `{"reason":"x","n":[1,2,3]}`,
	"d2": `"just a string"`,
	"d3": `[1, 2,   3 ]`,
	"d4": `null`,
	"d5": `{"a" : "<&>", "b" : {"c" : [true, false, null]}}`,
	"d6": `12345`,
}

var oeBaseTexts = map[string]string{
	"b1": "something went wrong",
	"b2": "while handling the request",
	"b3": "x",
}

var oeCarriers = []string{
	"GetBlob", "GetBlobRange", "GetManifest", "GetTag",
	"ResolveBlob", "ResolveManifest", "ResolveTag",
	"PushBlob", "PushBlobChunked", "PushBlobChunkedResume", "MountBlob", "PushManifest",
	"DeleteBlob", "DeleteManifest", "DeleteTag",
	"Repositories", "Tags", "Referrers",
	// carriers where the error is raised by the backend's BlobWriter (see oeWriterFail)
	"WPushBlob", "WWriteCommit", "WWritePatch", "WClose", "WCommit",
}

// oeWriterFail: which method of the backend's BlobWriter fails for a writer carrier.
//   WPushBlob     PushBlob: the closing PUT carries the content, the backend's Write fails
//   WWriteCommit  PushBlobChunked, Write within the chunk size, Commit: the same PUT
//   WWritePatch   a Write that overflows the chunk size is sent as a PATCH, the backend's Write fails
//   WClose        Close flushes buffered data as a PATCH, the backend's Close fails
//   WCommit       Commit with nothing written: a body-less PUT, the backend's Commit fails
var oeWriterFail = map[string]string{
	"WPushBlob": "W.Write", "WWriteCommit": "W.Write", "WWritePatch": "W.Write", "WClose": "W.Close", "WCommit": "W.Commit",
}

// oeFakeWriter is the backend's BlobWriter for writer carriers: the method named by failAt()
// fails with fail(<name>), the others succeed.
type oeFakeWriter struct {
	failAt func() string
	fail   func(method string) error
	size   int64
}

func (w *oeFakeWriter) Write(p []byte) (int, error) {
	if w.failAt() == "W.Write" {
		return 0, w.fail("W.Write")
	}
	w.size += int64(len(p))
	return len(p), nil
}
func (w *oeFakeWriter) Close() error {
	if w.failAt() == "W.Close" {
		return w.fail("W.Close")
	}
	return nil
}
func (w *oeFakeWriter) Size() int64    { return w.size }
func (w *oeFakeWriter) ChunkSize() int { return 1 }
func (w *oeFakeWriter) ID() string     { return "u1" }
func (w *oeFakeWriter) Commit(d ociregistry.Digest) (ociregistry.Descriptor, error) {
	if w.failAt() == "W.Commit" {
		return ociregistry.Descriptor{}, w.fail("W.Commit")
	}
	return ociregistry.Descriptor{MediaType: "application/octet-stream", Digest: d, Size: w.size}, nil
}
func (w *oeFakeWriter) Cancel() error { return nil }

// oeObsWriter lets an observer see the errors of the BlobWriter its client handed out.
type oeObsWriter struct {
	ociregistry.BlobWriter
	o *oeObserver
}

func (w *oeObsWriter) Write(p []byte) (int, error) {
	n, err := w.BlobWriter.Write(p)
	return n, w.o.rec(err)
}
func (w *oeObsWriter) Close() error { return w.o.rec(w.BlobWriter.Close()) }
func (w *oeObsWriter) Commit(d ociregistry.Digest) (ociregistry.Descriptor, error) {
	desc, err := w.BlobWriter.Commit(d)
	return desc, w.o.rec(err)
}

// ---------------------------------------------------------------- texts and tokens

func oeStatusText(n int) string { return strconv.Itoa(n) + " " + http.StatusText(n) }

func oeCodeText(code string) string {
	if code == "" {
		return "(no code)"
	}
	return strings.ToLower(strings.ReplaceAll(code, "_", " "))
}

type oeTables struct {
	status  map[string]int    // status prefix text -> status
	stdMsg  map[string]string // standard code -> message text of the standard value
	msgCode map[string]string // message text -> standard code
}

var oeTab = func() *oeTables {
	t := &oeTables{status: map[string]int{}, stdMsg: map[string]string{}, msgCode: map[string]string{}}
	for n := 100; n <= 999; n++ {
		t.status[oeStatusText(n)] = n
	}
	for i, e := range oeStd {
		code := oeStdCodes[i]
		m := ""
		if we, ok := e.(*ociregistry.WireError); ok {
			m = we.Message
		} else {
			m = strings.TrimPrefix(e.Error(), oeCodeText(code)+": ")
		}
		t.stdMsg[code] = m
		if _, dup := t.msgCode[m]; !dup {
			t.msgCode[m] = code
		}
	}
	return t
}()

// oeVocab is what the tokeniser may recognise for one case: code prefixes and base texts.
type oeVocab struct {
	codes map[string]string // code prefix text -> code
	base  map[string]string // base text -> token value
	dets  []string          // detail names used by the case
}

func oeNewVocab() *oeVocab {
	v := &oeVocab{codes: map[string]string{}, base: map[string]string{}}
	for _, c := range oeStdCodes {
		v.codes[oeCodeText(c)] = c
	}
	v.codes[oeCodeText("UNKNOWN")] = "UNKNOWN"
	v.codes[oeCodeText("")] = ""
	return v
}

func (v *oeVocab) addTok(t oeTok) {
	switch t.T {
	case "C":
		if _, ok := v.codes[oeCodeText(t.V)]; !ok {
			v.codes[oeCodeText(t.V)] = t.V
		}
	case "B":
		v.base[oeBaseText(t.V)] = t.V
	}
}

func (v *oeVocab) addTree(n *oeNode) {
	if n.K == "std" || n.K == "new" {
		v.addTok(oeTok{"C", n.Code})
	}
	for _, t := range n.Msg {
		v.addTok(t)
	}
	if n.Detail != "" && n.Detail != "none" {
		v.dets = append(v.dets, n.Detail)
	}
	for i := range n.Kids {
		v.addTree(&n.Kids[i])
	}
}

// oeBaseText: the text of a base token.  Named ones come from the table; any other value is
// its own text (random cases).
func oeBaseText(v string) string {
	if s, ok := oeBaseTexts[v]; ok {
		return s
	}
	if n, ok := oeSizeClass(v, 'L'); ok {
		return oeLongText(n)
	}
	return v
}

// Size classes.  A base token "L<n>" stands for a fixed text of exactly n bytes and a detail
// "D<k>" for a JSON object listing k digests, so that error bodies of every size class (below
// net/http's 2048-byte write buffer, above it - chunked responses -, up to just below the
// client's 8 KiB read limit) are exercised while the trace only carries the short names.
func oeSizeClass(v string, letter byte) (int, bool) {
	if len(v) < 2 || len(v) > 6 || v[0] != letter {
		return 0, false
	}
	n, err := strconv.Atoi(v[1:])
	if err != nil || n < 1 || strconv.Itoa(n) != v[1:] {
		return 0, false
	}
	return n, true
}

func oeLongText(n int) string {
	words := []string{"layer", "blob", "was", "not", "found", "in", "the", "repository", "while", "resolving", "manifest", "reference", "and", "digest"}
	var sb strings.Builder
	fmt.Fprintf(&sb, "text of %d bytes", n)
	for i := 0; sb.Len() < n; i++ {
		sb.WriteByte(' ')
		sb.WriteString(words[(i*7+n)%len(words)])
	}
	s := sb.String()
	if len(s) > n {
		s = s[:n]
	}
	if strings.HasSuffix(s, " ") {
		s = s[:n-1] + "."
	}
	return s
}

func oeDigestList(k int) string {
	var sb strings.Builder
	sb.WriteString(`{"missing":[`)
	for i := 0; i < k; i++ {
		if i > 0 {
			sb.WriteByte(',')
		}
		fmt.Fprintf(&sb, "%q", digest.FromString(fmt.Sprintf("layer %d of %d", i, k)).String())
	}
	sb.WriteString(`]}`)
	return sb.String()
}

// oeShort keeps unknown text in a trace line bounded: head, length and checksum.
func oeShort(s string) string {
	if len(s) <= 300 {
		return s
	}
	return fmt.Sprintf("%s...[%d bytes, %s]", s[:200], len(s), digest.FromString(s).Encoded()[:16])
}

func oeTokText(t oeTok) string {
	switch t.T {
	case "S":
		n, _ := strconv.Atoi(t.V)
		return oeStatusText(n)
	case "C":
		return oeCodeText(t.V)
	case "M":
		return oeTab.stdMsg[t.V]
	case "B":
		return oeBaseText(t.V)
	}
	return ""
}

func oeRender(msg []oeTok) string {
	parts := make([]string, len(msg))
	for i, t := range msg {
		parts[i] = oeTokText(t)
	}
	return strings.Join(parts, ": ")
}

// oeTokenise maps a message back to tokens by exact comparison with texts the harness
// generated; anything else is logged verbatim as one U token.
func (v *oeVocab) tokenise(s string) []oeTok {
	out := []oeTok{}
	for _, p := range strings.Split(s, ": ") {
		switch {
		case p == "":
			out = append(out, oeTok{"E", ""})
		default:
			if n, ok := oeTab.status[p]; ok {
				out = append(out, oeTok{"S", strconv.Itoa(n)})
			} else if c, ok := v.codes[p]; ok {
				out = append(out, oeTok{"C", c})
			} else if c, ok := oeTab.msgCode[p]; ok {
				out = append(out, oeTok{"M", c})
			} else if b, ok := v.base[p]; ok {
				out = append(out, oeTok{"B", b})
			} else {
				out = append(out, oeTok{"U", oeShort(p)})
			}
		}
	}
	return out
}

func oeDetailBytes(d string) json.RawMessage {
	if d == "" || d == "none" {
		return nil
	}
	if strings.HasPrefix(d, "j:") {
		return json.RawMessage(d[2:])
	}
	if k, ok := oeSizeClass(d, 'D'); ok {
		return json.RawMessage(oeDigestList(k))
	}
	return json.RawMessage(oeDetails[d])
}

// oeDetailName maps detail bytes back to the name used by the case (comparison as JSON values).
func (v *oeVocab) detailName(raw json.RawMessage) string {
	if len(raw) == 0 {
		return "none"
	}
	var got any
	if err := json.Unmarshal(raw, &got); err != nil {
		return "U:" + oeShort(string(raw))
	}
	for _, d := range v.dets {
		var want any
		if json.Unmarshal(oeDetailBytes(d), &want) == nil && reflect.DeepEqual(got, want) {
			return d
		}
	}
	return "U:" + oeShort(string(raw))
}

// ---------------------------------------------------------------- building the real value

func oeBuild(n *oeNode) error {
	var kids []error
	for i := range n.Kids {
		kids = append(kids, oeBuild(&n.Kids[i]))
	}
	switch n.K {
	case "std":
		for i, c := range oeStdCodes {
			if c == n.Code {
				return oeStd[i]
			}
		}
		panic("harness: unknown standard code " + n.Code)
	case "new":
		return ociregistry.NewError(oeRender(n.Msg), n.Code, oeDetailBytes(n.Detail))
	case "plain":
		return errors.New(oeRender(n.Msg))
	case "fmt":
		parts := []string{}
		for _, t := range n.Msg {
			parts = append(parts, strings.ReplaceAll(oeTokText(t), "%", "%%"))
		}
		args := []any{}
		for _, k := range kids {
			parts = append(parts, "%w")
			args = append(args, k)
		}
		return fmt.Errorf(strings.Join(parts, ": "), args...)
	case "http":
		var inner error
		if len(kids) > 0 {
			inner = kids[0]
		}
		if n.Resp {
			body := []byte(`{"errors":[{"code":"UPSTREAM","message":"as answered by the upstream registry"}]}`)
			resp := &http.Response{
				Status:     oeStatusText(n.Status),
				StatusCode: n.Status,
				Proto:      "HTTP/1.1", ProtoMajor: 1, ProtoMinor: 1,
				Header:        http.Header{"Content-Type": {"application/json"}},
				ContentLength: int64(len(body)),
				Body:          io.NopCloser(bytes.NewReader(body)),
			}
			return ociregistry.NewHTTPError(inner, n.Status, resp, body)
		}
		return ociregistry.NewHTTPError(inner, n.Status, nil, nil)
	}
	panic("harness: unknown node kind " + n.K)
}

// ---------------------------------------------------------------- observation

type oeObs struct {
	IsErr   bool     `json:"isErr"`
	Is      []string `json:"is"`
	HTTP    bool     `json:"http"`
	Resp    bool     `json:"resp"` // the HTTPError carries the response it was made from
	Status  int      `json:"status"`
	HasCode bool     `json:"hasCode"`
	Code    string   `json:"code"`
	Detail  string   `json:"detail"`
	Msg     []oeTok  `json:"msg"`
	Items   []int    `json:"items"` // listing carriers: the items delivered before the error (1, 2, ...; 0 = not an item of the case)
}

func (v *oeVocab) observe(err error) oeObs {
	o := oeObs{Is: []string{}, Detail: "none", Msg: []oeTok{}, Items: []int{}}
	if err == nil {
		return o
	}
	o.IsErr = true
	for i, s := range oeStd {
		if errors.Is(err, s) {
			o.Is = append(o.Is, oeStdCodes[i])
		}
	}
	var he ociregistry.HTTPError
	if errors.As(err, &he) {
		o.HTTP = true
		o.Resp = he.Response() != nil
		o.Status = he.StatusCode()
	}
	var oe ociregistry.Error
	if errors.As(err, &oe) {
		o.HasCode = true
		o.Code = oe.Code()
		o.Detail = v.detailName(oe.Detail())
	}
	o.Msg = v.tokenise(err.Error())
	return o
}

type oeWire struct {
	Status int     `json:"status"`
	Empty  bool    `json:"empty"` // no body bytes
	JSON   bool    `json:"json"`  // JSON content type and a body that parses as WireErrors
	N      int     `json:"n"`     // number of errors in the body
	Code   string  `json:"code"`
	Detail string  `json:"detail"`
	Msg    []oeTok `json:"msg"`
	Nreq   int     `json:"nreq"` // requests this client made for the case
	Method string  `json:"method"`
}

// oeTap records the last response a client received.
type oeTap struct {
	rt     http.RoundTripper
	nreq   int
	method string
	status int
	ctype  string
	body   []byte
}

func (t *oeTap) RoundTrip(req *http.Request) (*http.Response, error) {
	resp, err := t.rt.RoundTrip(req)
	if err != nil {
		return resp, err
	}
	t.nreq++
	data, _ := io.ReadAll(resp.Body)
	resp.Body.Close()
	resp.Body = io.NopCloser(bytes.NewReader(data))
	if t.status < 400 {
		// keep the first error response of the case (earlier successful ones are overwritten)
		t.method = req.Method
		t.status = resp.StatusCode
		t.ctype = resp.Header.Get("Content-Type")
		t.body = data
	}
	return resp, nil
}

func (t *oeTap) reset() { t.nreq, t.method, t.status, t.ctype, t.body = 0, "", 0, "", nil }

func (v *oeVocab) wire(t *oeTap) oeWire {
	w := oeWire{Status: t.status, Empty: len(t.body) == 0, Detail: "none", Msg: []oeTok{}, Nreq: t.nreq, Method: t.method}
	if w.Empty {
		return w
	}
	var body struct {
		Errors []struct {
			Code    string          `json:"code"`
			Message string          `json:"message"`
			Detail  json.RawMessage `json:"detail"`
		} `json:"errors"`
	}
	if !strings.HasPrefix(t.ctype, "application/json") || json.Unmarshal(t.body, &body) != nil {
		w.Msg = []oeTok{{"U", oeShort(string(t.body))}}
		return w
	}
	w.JSON = true
	w.N = len(body.Errors)
	if w.N > 0 {
		w.Code = body.Errors[0].Code
		w.Detail = v.detailName(body.Errors[0].Detail)
		w.Msg = v.tokenise(body.Errors[0].Message)
	}
	return w
}

// ---------------------------------------------------------------- the hop stack

// oeObserver forwards every Interface method to the client below it and keeps the error
// the carrier call returned at this level.
type oeObserver struct {
	ociregistry.Interface
	got   error
	seen  bool
	items []int
}

// rec keeps the FIRST error seen at this level for the case (a server may call Close after a
// failed Commit, which fails again).
func (o *oeObserver) rec(err error) error {
	if o.got == nil {
		o.got = err
	}
	o.seen = true
	return err
}

func (o *oeObserver) GetBlob(ctx context.Context, repo string, d ociregistry.Digest) (ociregistry.BlobReader, error) {
	r, err := o.Interface.GetBlob(ctx, repo, d)
	return r, o.rec(err)
}
func (o *oeObserver) GetBlobRange(ctx context.Context, repo string, d ociregistry.Digest, o0, o1 int64) (ociregistry.BlobReader, error) {
	r, err := o.Interface.GetBlobRange(ctx, repo, d, o0, o1)
	return r, o.rec(err)
}
func (o *oeObserver) GetManifest(ctx context.Context, repo string, d ociregistry.Digest) (ociregistry.BlobReader, error) {
	r, err := o.Interface.GetManifest(ctx, repo, d)
	return r, o.rec(err)
}
func (o *oeObserver) GetTag(ctx context.Context, repo string, tag string) (ociregistry.BlobReader, error) {
	r, err := o.Interface.GetTag(ctx, repo, tag)
	return r, o.rec(err)
}
func (o *oeObserver) ResolveBlob(ctx context.Context, repo string, d ociregistry.Digest) (ociregistry.Descriptor, error) {
	r, err := o.Interface.ResolveBlob(ctx, repo, d)
	return r, o.rec(err)
}
func (o *oeObserver) ResolveManifest(ctx context.Context, repo string, d ociregistry.Digest) (ociregistry.Descriptor, error) {
	r, err := o.Interface.ResolveManifest(ctx, repo, d)
	return r, o.rec(err)
}
func (o *oeObserver) ResolveTag(ctx context.Context, repo string, tag string) (ociregistry.Descriptor, error) {
	r, err := o.Interface.ResolveTag(ctx, repo, tag)
	return r, o.rec(err)
}
func (o *oeObserver) PushBlob(ctx context.Context, repo string, desc ociregistry.Descriptor, r io.Reader) (ociregistry.Descriptor, error) {
	d, err := o.Interface.PushBlob(ctx, repo, desc, r)
	return d, o.rec(err)
}
func (o *oeObserver) PushBlobChunked(ctx context.Context, repo string, chunkSize int) (ociregistry.BlobWriter, error) {
	w, err := o.Interface.PushBlobChunked(ctx, repo, chunkSize)
	if err == nil && w != nil {
		w = &oeObsWriter{w, o}
	}
	return w, o.rec(err)
}
func (o *oeObserver) PushBlobChunkedResume(ctx context.Context, repo, id string, offset int64, chunkSize int) (ociregistry.BlobWriter, error) {
	w, err := o.Interface.PushBlobChunkedResume(ctx, repo, id, offset, chunkSize)
	if err == nil && w != nil {
		w = &oeObsWriter{w, o}
	}
	return w, o.rec(err)
}
func (o *oeObserver) MountBlob(ctx context.Context, from, to string, d ociregistry.Digest) (ociregistry.Descriptor, error) {
	r, err := o.Interface.MountBlob(ctx, from, to, d)
	return r, o.rec(err)
}
func (o *oeObserver) PushManifest(ctx context.Context, repo, tag string, contents []byte, mt string) (ociregistry.Descriptor, error) {
	r, err := o.Interface.PushManifest(ctx, repo, tag, contents, mt)
	return r, o.rec(err)
}
func (o *oeObserver) DeleteBlob(ctx context.Context, repo string, d ociregistry.Digest) error {
	return o.rec(o.Interface.DeleteBlob(ctx, repo, d))
}
func (o *oeObserver) DeleteManifest(ctx context.Context, repo string, d ociregistry.Digest) error {
	return o.rec(o.Interface.DeleteManifest(ctx, repo, d))
}
func (o *oeObserver) DeleteTag(ctx context.Context, repo string, tag string) error {
	return o.rec(o.Interface.DeleteTag(ctx, repo, tag))
}
func (o *oeObserver) Repositories(ctx context.Context, start string) ociregistry.Seq[string] {
	return oeRecSeq(o, o.Interface.Repositories(ctx, start))
}
func (o *oeObserver) Tags(ctx context.Context, repo, start string) ociregistry.Seq[string] {
	return oeRecSeq(o, o.Interface.Tags(ctx, repo, start))
}
func (o *oeObserver) Referrers(ctx context.Context, repo string, d ociregistry.Digest, at string) ociregistry.Seq[ociregistry.Descriptor] {
	return oeRecSeq(o, o.Interface.Referrers(ctx, repo, d, at))
}

func oeRecSeq[T any](o *oeObserver, it ociregistry.Seq[T]) ociregistry.Seq[T] {
	return func(yield func(T, error) bool) {
		o.seen = true
		it(func(x T, err error) bool {
			if err != nil {
				o.rec(err)
			} else {
				o.items = append(o.items, oeItemIndex(x))
			}
			return yield(x, err)
		})
	}
}

// oeBackend is a registry every method of which returns fail(<its own name>).
var oeItemNames = []string{"i1", "i2", "i3"}

func oeItemDesc(i int) ociregistry.Descriptor {
	return ociregistry.Descriptor{MediaType: "application/vnd.oci.image.manifest.v1+json", Digest: digest.FromString(oeItemNames[i]), Size: int64(10 + i)}
}

// oeItemIndex maps a listed item back to its index 1.. (0: not an item the harness supplied).
func oeItemIndex(x any) int {
	for i, n := range oeItemNames {
		switch x := x.(type) {
		case string:
			if x == n {
				return i + 1
			}
		case ociregistry.Descriptor:
			if x.Digest == oeItemDesc(i).Digest && x.Size == oeItemDesc(i).Size {
				return i + 1
			}
		}
	}
	return 0
}

// oeItemsThenErr yields the first n items that come after start, and then the error.
func oeItemsThenErr[T any](n int, start string, item func(i int) T, fail func() error) ociregistry.Seq[T] {
	return func(yield func(T, error) bool) {
		for i := 0; i < n && i < len(oeItemNames); i++ {
			if oeItemNames[i] > start {
				if !yield(item(i), nil) {
					return
				}
			}
		}
		yield(*new(T), fail())
	}
}

func oeBackend(nitems func() int, failAt func() string, fail func(method string) error) ociregistry.Interface {
	type D = ociregistry.Digest
	type Desc = ociregistry.Descriptor
	return &ociregistry.Funcs{
		GetBlob_: func(ctx context.Context, repo string, d D) (ociregistry.BlobReader, error) {
			return nil, fail("GetBlob")
		},
		GetBlobRange_: func(ctx context.Context, repo string, d D, o0, o1 int64) (ociregistry.BlobReader, error) {
			return nil, fail("GetBlobRange")
		},
		GetManifest_: func(ctx context.Context, repo string, d D) (ociregistry.BlobReader, error) {
			return nil, fail("GetManifest")
		},
		GetTag_: func(ctx context.Context, repo string, tag string) (ociregistry.BlobReader, error) {
			return nil, fail("GetTag")
		},
		ResolveBlob_:     func(ctx context.Context, repo string, d D) (Desc, error) { return Desc{}, fail("ResolveBlob") },
		ResolveManifest_: func(ctx context.Context, repo string, d D) (Desc, error) { return Desc{}, fail("ResolveManifest") },
		ResolveTag_:      func(ctx context.Context, repo string, tag string) (Desc, error) { return Desc{}, fail("ResolveTag") },
		PushBlob_: func(ctx context.Context, repo string, desc Desc, r io.Reader) (Desc, error) {
			return Desc{}, fail("PushBlob")
		},
		PushBlobChunked_: func(ctx context.Context, repo string, chunkSize int) (ociregistry.BlobWriter, error) {
			if failAt() != "" {
				return &oeFakeWriter{failAt: failAt, fail: fail}, nil
			}
			return nil, fail("PushBlobChunked")
		},
		PushBlobChunkedResume_: func(ctx context.Context, repo, id string, offset int64, chunkSize int) (ociregistry.BlobWriter, error) {
			if failAt() != "" {
				return &oeFakeWriter{failAt: failAt, fail: fail, size: max(offset, 0)}, nil
			}
			return nil, fail("PushBlobChunkedResume")
		},
		MountBlob_: func(ctx context.Context, from, to string, d D) (Desc, error) { return Desc{}, fail("MountBlob") },
		PushManifest_: func(ctx context.Context, repo, tag string, contents []byte, mt string) (Desc, error) {
			return Desc{}, fail("PushManifest")
		},
		DeleteBlob_:     func(ctx context.Context, repo string, d D) error { return fail("DeleteBlob") },
		DeleteManifest_: func(ctx context.Context, repo string, d D) error { return fail("DeleteManifest") },
		DeleteTag_:      func(ctx context.Context, repo string, tag string) error { return fail("DeleteTag") },
		Repositories_: func(ctx context.Context, start string) ociregistry.Seq[string] {
			return oeItemsThenErr(nitems(), start, func(i int) string { return oeItemNames[i] }, func() error { return fail("Repositories") })
		},
		Tags_: func(ctx context.Context, repo, start string) ociregistry.Seq[string] {
			return oeItemsThenErr(nitems(), start, func(i int) string { return oeItemNames[i] }, func() error { return fail("Tags") })
		},
		Referrers_: func(ctx context.Context, repo string, d D, at string) ociregistry.Seq[Desc] {
			return oeItemsThenErr(nitems(), "", oeItemDesc, func() error { return fail("Referrers") })
		},
	}
}

type oeStack struct {
	cur     error
	nitems  int
	failAt  string // writer carriers: the method of the backend's BlobWriter that fails
	answer  oeOriginAnswer // origin stacks: what the foreign registry answers
	obs0    *oeObserver    // origin stacks: the client talking to the foreign registry (level 0)
	tap0    *oeTap
	reached []string
	obs     []*oeObserver // obs[j-1]: level j (j hops above the backend)
	taps    []*oeTap
	servers []*httptest.Server
}

// oeOriginAnswer is what the non-conforming origin registry answers to every request.
type oeOriginAnswer struct {
	status int
	body   []byte
}

func oeNewStack(hops, page int, origin bool) (*oeStack, error) {
	st := &oeStack{}
	quiet := log.New(io.Discard, "", 0)
	newClient := func(srv *httptest.Server) (*oeObserver, *oeTap, error) {
		u, _ := url.Parse(srv.URL)
		tap := &oeTap{rt: &http.Transport{MaxIdleConnsPerHost: 4}}
		c, err := ociclient.New(u.Host, &ociclient.Options{Insecure: true, Transport: tap, ListPageSize: page})
		if err != nil {
			return nil, nil, err
		}
		return &oeObserver{Interface: c}, tap, nil
	}
	if origin {
		srv := httptest.NewUnstartedServer(http.HandlerFunc(func(w http.ResponseWriter, req *http.Request) {
			st.reached = append(st.reached, "origin")
			io.Copy(io.Discard, req.Body)
			w.Header().Set("Content-Type", "application/json")
			w.WriteHeader(st.answer.status)
			w.Write(st.answer.body)
		}))
		srv.Config.ErrorLog = quiet
		srv.Start()
		st.servers = append(st.servers, srv)
		ob, tap, err := newClient(srv)
		if err != nil {
			return nil, err
		}
		st.obs0, st.tap0 = ob, tap
		return st, st.addHops(ob, hops, newClient, quiet)
	}
	var below ociregistry.Interface = oeBackend(func() int { return st.nitems }, func() string { return st.failAt }, func(method string) error {
		st.reached = append(st.reached, method)
		return st.cur
	})
	return st, st.addHops(below, hops, newClient, quiet)
}

func (st *oeStack) addHops(below ociregistry.Interface, hops int, newClient func(*httptest.Server) (*oeObserver, *oeTap, error), quiet *log.Logger) error {
	for j := 1; j <= hops; j++ {
		srv := httptest.NewUnstartedServer(ociserver.New(below, nil))
		srv.Config.ErrorLog = quiet
		srv.Start()
		st.servers = append(st.servers, srv)
		ob, tap, err := newClient(srv)
		if err != nil {
			return err
		}
		st.obs = append(st.obs, ob)
		st.taps = append(st.taps, tap)
		below = ob
	}
	return nil
}

func (st *oeStack) close() {
	for _, s := range st.servers {
		s.Close()
	}
}

const oeRepo = "foo/bar"

var oeBlob = []byte("hello, world")
var oeDigest = digest.FromBytes(oeBlob)
var oeManifest = []byte(`{"schemaVersion":2,"mediaType":"application/vnd.oci.image.manifest.v1+json","config":{"mediaType":"application/vnd.oci.image.config.v1+json","digest":"sha256:e3b0c44298fc1c149afbf4c8996fb92427ae41e4649b934ca495991b7852b855","size":0},"layers":[]}`)

// oeUploadID: the id that, given to the client j hops above the backend, reaches the backend
// as "u1" (each server decodes one layer of the location it handed out).
func oeUploadID(hops int) string {
	x := "u1"
	for i := 0; i < hops; i++ {
		x = "/v2/" + oeRepo + "/blobs/uploads/" + base64.RawURLEncoding.EncodeToString([]byte(x))
	}
	return x
}

func oeDrain[T any](it ociregistry.Seq[T]) {
	it(func(_ T, err error) bool { return err == nil })
}

// oeCall invokes the carrier on the top of the stack; the observers keep the errors.
func oeCall(ctx context.Context, top ociregistry.Interface, carrier string, hops int) error {
	switch carrier {
	case "GetBlob":
		_, err := top.GetBlob(ctx, oeRepo, oeDigest)
		return err
	case "GetBlobRange":
		_, err := top.GetBlobRange(ctx, oeRepo, oeDigest, 1, 3)
		return err
	case "GetManifest":
		_, err := top.GetManifest(ctx, oeRepo, oeDigest)
		return err
	case "GetTag":
		_, err := top.GetTag(ctx, oeRepo, "t1")
		return err
	case "ResolveBlob":
		_, err := top.ResolveBlob(ctx, oeRepo, oeDigest)
		return err
	case "ResolveManifest":
		_, err := top.ResolveManifest(ctx, oeRepo, oeDigest)
		return err
	case "ResolveTag":
		_, err := top.ResolveTag(ctx, oeRepo, "t1")
		return err
	case "PushBlob":
		_, err := top.PushBlob(ctx, oeRepo, ociregistry.Descriptor{MediaType: "application/octet-stream", Digest: oeDigest, Size: int64(len(oeBlob))}, bytes.NewReader(oeBlob))
		return err
	case "PushBlobChunked":
		_, err := top.PushBlobChunked(ctx, oeRepo, 0)
		return err
	case "PushBlobChunkedResume":
		_, err := top.PushBlobChunkedResume(ctx, oeRepo, oeUploadID(hops), -1, 0)
		return err
	case "MountBlob":
		_, err := top.MountBlob(ctx, "foo/src", oeRepo, oeDigest)
		return err
	case "PushManifest":
		_, err := top.PushManifest(ctx, oeRepo, "t1", oeManifest, "application/vnd.oci.image.manifest.v1+json")
		return err
	case "DeleteBlob":
		return top.DeleteBlob(ctx, oeRepo, oeDigest)
	case "DeleteManifest":
		return top.DeleteManifest(ctx, oeRepo, oeDigest)
	case "DeleteTag":
		return top.DeleteTag(ctx, oeRepo, "t1")
	case "Repositories":
		oeDrain(top.Repositories(ctx, ""))
		return nil
	case "Tags":
		oeDrain(top.Tags(ctx, oeRepo, ""))
		return nil
	case "Referrers":
		oeDrain(top.Referrers(ctx, oeRepo, oeDigest, ""))
		return nil
	case "WPushBlob":
		_, err := top.PushBlob(ctx, oeRepo, ociregistry.Descriptor{MediaType: "application/octet-stream", Digest: oeDigest, Size: int64(len(oeBlob))}, bytes.NewReader(oeBlob))
		return err
	case "WWriteCommit":
		w, err := top.PushBlobChunked(ctx, oeRepo, 0)
		if err != nil {
			return err
		}
		if _, err := w.Write(oeBlob); err != nil {
			return err
		}
		_, err = w.Commit(oeDigest)
		return err
	case "WWritePatch", "WClose", "WCommit":
		chunk := 64
		if carrier == "WWritePatch" {
			chunk = 4
		}
		w, err := top.PushBlobChunkedResume(ctx, oeRepo, oeUploadID(hops), 0, chunk)
		if err != nil {
			return err
		}
		switch carrier {
		case "WWritePatch":
			_, err = w.Write(oeBlob)
		case "WClose":
			if _, err = w.Write(oeBlob); err == nil {
				err = w.Close()
			}
		case "WCommit":
			_, err = w.Commit(oeDigest)
		}
		return err
	}
	panic("harness: unknown carrier " + carrier)
}

func (st *oeStack) run(c *oeCase) (e ev) {
	e = ev{"op": "case", "id": c.ID, "carrier": c.Carrier, "hops": c.Hops, "err": c.Err, "nitems": c.NItems, "page": c.Page, "origin": c.Origin}
	defer func() {
		if r := recover(); r != nil {
			e = ev{"op": "panic", "id": c.ID, "carrier": c.Carrier, "hops": c.Hops, "err": c.Err, "nitems": c.NItems, "page": c.Page, "origin": c.Origin, "panic": fmt.Sprint(r)}
		}
	}()
	v := oeNewVocab()
	v.addTree(&c.Err)
	st.cur = oeBuild(&c.Err)
	st.reached = nil
	st.nitems = c.NItems
	st.failAt = oeWriterFail[c.Carrier]
	for j := range st.obs {
		st.obs[j].got, st.obs[j].seen, st.obs[j].items = nil, false, nil
		st.taps[j].reset()
	}
	idDepth := c.Hops
	if c.Origin {
		// the foreign registry answers with the tree's status, code, message and detail
		in := &c.Err.Kids[0]
		we := map[string]any{"code": in.Code, "message": oeRender(in.Msg)}
		if d := oeDetailBytes(in.Detail); d != nil {
			we["detail"] = d
		}
		body, _ := json.Marshal(map[string]any{"errors": []any{we}})
		st.answer = oeOriginAnswer{status: c.Err.Status, body: body}
		st.obs0.got, st.obs0.seen, st.obs0.items = nil, false, nil
		st.tap0.reset()
		idDepth++
	}
	oeCall(context.Background(), st.obs[c.Hops-1], c.Carrier, idDepth)
	lv := []oeObs{}
	if c.Origin {
		lv = append(lv, v.observe(st.obs0.got)) // level 0: what ociclient made of the foreign answer
	} else {
		lv = append(lv, v.observe(st.cur))
	}
	wire := []oeWire{}
	for j := 0; j < c.Hops; j++ {
		o := v.observe(st.obs[j].got)
		o.Items = append(o.Items, st.obs[j].items...)
		lv = append(lv, o)
		wire = append(wire, v.wire(st.taps[j]))
	}
	reached := st.reached
	if reached == nil {
		reached = []string{}
	}
	e["reached"] = reached
	e["lv"] = lv
	e["wire"] = wire
	return e
}

// ---------------------------------------------------------------- seeded-random cases

var oeAlphabet = []string{"a", "b", "z", "Q", "0", "7", " ", " ", "-", "_", ".", ",", ";", ":", "'", "\"", "%", "%w", "<", "&", ">", "/", "\\", "(", ")", "=", "é", "ß", "日", "本"}

func oeRandText(r *rand.Rand) string {
	for {
		n := 1 + r.Intn(12)
		var sb strings.Builder
		for i := 0; i < n; i++ {
			sb.WriteString(oeAlphabet[r.Intn(len(oeAlphabet))])
		}
		s := strings.TrimSpace(sb.String())
		if s == "" || strings.Contains(s, ": ") || strings.HasSuffix(s, ":") {
			continue
		}
		s = "~" + s // never a status, code or standard-message text
		return s
	}
}

// custom codes that differ from a tabled code (or UNKNOWN) only by case; the same list is the
// table CaseVariants of spec/OciError.tla (their code prefix text is the tabled code's)
var oeCaseVariants = []string{"denied", "Blob_Unknown", "blob_upload_invalid", "Range_Invalid", "name_unknown", "Unsupported", "unknown"}

func oeCanonCode(c string) string {
	for _, v := range oeCaseVariants {
		if v == c {
			return strings.ToUpper(c)
		}
	}
	return c
}

func oeRandCode(r *rand.Rand) string {
	switch x := r.Intn(20); {
	case x < 11:
		return oeStdCodes[r.Intn(len(oeStdCodes))]
	case x < 13:
		return [...]string{"BLOB_UPLOAD_INVALID", "RANGE_INVALID"}[r.Intn(2)]
	case x < 14:
		return ""
	case x < 15:
		return "UNKNOWN"
	case x < 17:
		return oeCaseVariants[r.Intn(len(oeCaseVariants))]
	}
	letters := "ABCDEFGHIJKLMNOPQRSTUVWXYZ"
	n := 2 + r.Intn(8)
	b := []byte("X")
	for i := 0; i < n; i++ {
		if r.Intn(5) == 0 {
			b = append(b, '_')
		} else {
			b = append(b, letters[r.Intn(len(letters))])
		}
	}
	return string(b) + "Q" // cannot collide with a standard code or UNKNOWN
}

func oeRandStatus(r *rand.Rand) int {
	if r.Intn(3) == 0 {
		return [...]int{400, 401, 403, 404, 416, 429, 416, 500}[r.Intn(8)]
	}
	return 400 + r.Intn(200)
}

func oeRandMsg(r *rand.Rand, lo int) []oeTok {
	n := lo + r.Intn(3)
	out := []oeTok{}
	for i := 0; i < n; i++ {
		switch x := r.Intn(12); {
		case x < 5:
			out = append(out, oeTok{"B", oeRandText(r)})
		case x < 7:
			out = append(out, oeTok{"S", strconv.Itoa(oeRandStatus(r))})
		case x < 9:
			// a prefix token is named by its text: a case variant's prefix is the tabled code's
			out = append(out, oeTok{"C", oeCanonCode(oeRandCode(r))})
		case x < 10:
			out = append(out, oeTok{"E", ""})
		case x < 11:
			out = append(out, oeTok{"B", [...]string{"b1", "b2", "b3", "L1900", "L2100", "L3000", "L500"}[r.Intn(7)]})
		default:
			out = append(out, oeTok{"C", "UNKNOWN"})
		}
	}
	return out
}

func oeRandJSON(r *rand.Rand, depth int) any {
	switch x := r.Intn(7); {
	case x == 0 && depth > 0:
		m := map[string]any{}
		for i := r.Intn(3); i >= 0; i-- {
			m[oeRandText(r)] = oeRandJSON(r, depth-1)
		}
		return m
	case x == 1 && depth > 0:
		a := []any{}
		for i := r.Intn(3); i > 0; i-- {
			a = append(a, oeRandJSON(r, depth-1))
		}
		return a
	case x == 2:
		return r.Intn(2) == 0
	case x == 3:
		return r.Intn(100000) - 500
	case x == 4:
		return float64(r.Intn(1000)) / 8
	}
	return oeRandText(r)
}

func oeRandDetail(r *rand.Rand) string {
	switch x := r.Intn(6); {
	case x < 2:
		return "none"
	case x < 4:
		return "d" + strconv.Itoa(1+r.Intn(6))
	case x < 5 && r.Intn(2) == 0:
		return [...]string{"D1", "D25", "D30", "D60"}[r.Intn(4)]
	}
	var buf bytes.Buffer
	enc := json.NewEncoder(&buf)
	enc.SetEscapeHTML(false)
	if r.Intn(2) == 0 {
		enc.SetIndent(" ", "  ")
	}
	enc.Encode(oeRandJSON(r, 3))
	return "j:" + strings.TrimSpace(buf.String())
}

func oeRandTree(r *rand.Rand, depth int) oeNode {
	leaf := func() oeNode {
		switch x := r.Intn(10); {
		case x < 3:
			return oeNode{K: "std", Code: oeStdCodes[r.Intn(len(oeStdCodes))], Msg: []oeTok{}, Detail: "none", Kids: []oeNode{}}
		case x < 8:
			m := oeRandMsg(r, 1)
			if r.Intn(8) == 0 {
				m = []oeTok{{"E", ""}}
			}
			return oeNode{K: "new", Code: oeRandCode(r), Msg: m, Detail: oeRandDetail(r), Kids: []oeNode{}}
		}
		m := oeRandMsg(r, 1)
		if r.Intn(6) == 0 {
			m = []oeTok{{"E", ""}}
		}
		return oeNode{K: "plain", Msg: m, Detail: "none", Kids: []oeNode{}}
	}
	if depth <= 0 {
		return leaf()
	}
	switch x := r.Intn(10); {
	case x < 3:
		return leaf()
	case x < 6:
		n := oeNode{K: "http", Status: oeRandStatus(r), Msg: []oeTok{}, Detail: "none", Kids: []oeNode{}, Resp: r.Intn(3) == 0}
		if r.Intn(8) != 0 {
			n.Kids = append(n.Kids, oeRandTree(r, depth-1))
		}
		return n
	}
	n := oeNode{K: "fmt", Msg: oeRandMsg(r, 0), Detail: "none", Kids: []oeNode{}}
	nk := 1
	if r.Intn(4) == 0 {
		nk = 2 + r.Intn(2)
	}
	for i := 0; i < nk; i++ {
		n.Kids = append(n.Kids, oeRandTree(r, depth-1))
	}
	return n
}

// oeBodyBound: an upper bound of the JSON error body the tree can produce (whole message,
// JSON-escaped at worst 6x for the few special characters, plus the largest detail).
func oeBodyBound(n *oeNode) int {
	msg, _ := json.Marshal(oeBuild(n).Error())
	det := 0
	var walk func(n *oeNode)
	walk = func(n *oeNode) {
		if d := len(oeDetailBytes(n.Detail)); d > det {
			det = d
		}
		for i := range n.Kids {
			walk(&n.Kids[i])
		}
	}
	walk(n)
	return len(msg) + det + 200
}

// ---------------------------------------------------------------- command

func oeHeader() ev {
	v := oeNewVocab()
	stdmsg := map[string][]oeTok{}
	for _, c := range oeStdCodes {
		stdmsg[c] = v.tokenise(oeTab.stdMsg[c])
	}
	return ev{"op": "header", "family": "OciError", "stdmsg": stdmsg, "carriers": oeCarriers}
}

func oeCmd(args []string) error {
	fs := flag.NewFlagSet("errors", flag.ExitOnError)
	seed := fs.Int64("seed", 1, "seed for random cases")
	n := fs.Int("n", 0, "number of seeded-random cases")
	hops := fs.Int("hops", 3, "hops for random cases (each case logs every level 0..hops)")
	depth := fs.Int("depth", 4, "maximal wrap depth of random cases")
	casesFile := fs.String("cases", "", "file with one JSON case per line; a line {\"op\":\"reset\",...} is copied through")
	replay := fs.String("replay", "", "replay file: re-execute the cases of its events")
	out := fs.String("out", "", "trace file")
	group := fs.Int("group", 25, "random cases per reset line")
	fs.Parse(args)
	f, err := os.Create(*out)
	if err != nil {
		return err
	}
	defer f.Close()
	bw := bufio.NewWriterSize(f, 1<<20)
	defer bw.Flush()
	enc := json.NewEncoder(bw)
	enc.SetEscapeHTML(false)
	enc.Encode(oeHeader())
	stacks := map[[3]int]*oeStack{}
	defer func() {
		for _, s := range stacks {
			s.close()
		}
	}()
	total := 0
	runCase := func(c *oeCase) error {
		if c.Hops < 1 || c.Hops > 8 {
			return fmt.Errorf("case %d: bad hop count %d", c.ID, c.Hops)
		}
		if c.NItems < 0 || c.NItems > len(oeItemNames) || c.Page < 0 {
			return fmt.Errorf("case %d: bad nitems/page %d/%d", c.ID, c.NItems, c.Page)
		}
		if c.Origin && !(c.Err.K == "http" && c.Err.Resp && len(c.Err.Kids) == 1 && c.Err.Kids[0].K == "new" && c.Err.Status >= 400 && c.Err.Status <= 599) {
			return fmt.Errorf("case %d: an origin case needs a tree http(resp)[new]", c.ID)
		}
		key := [3]int{c.Hops, c.Page, 0}
		if c.Origin {
			key[2] = 1
		}
		st := stacks[key]
		if st == nil {
			var err error
			if st, err = oeNewStack(c.Hops, c.Page, c.Origin); err != nil {
				return err
			}
			stacks[key] = st
		}
		enc.Encode(st.run(c))
		total++
		return nil
	}
	for _, file := range []string{*casesFile, *replay} {
		if file == "" {
			continue
		}
		sf, err := os.Open(file)
		if err != nil {
			return err
		}
		sc := bufio.NewScanner(sf)
		sc.Buffer(make([]byte, 1<<20), 1<<26)
		for sc.Scan() {
			var probe struct {
				Op string `json:"op"`
			}
			if json.Unmarshal(sc.Bytes(), &probe) != nil {
				continue
			}
			switch probe.Op {
			case "header":
				continue
			case "reset":
				bw.Write(sc.Bytes())
				bw.WriteByte('\n')
				continue
			}
			var c oeCase
			if err := json.Unmarshal(sc.Bytes(), &c); err != nil {
				return fmt.Errorf("case: %v", err)
			}
			if err := runCase(&c); err != nil {
				return err
			}
		}
		sf.Close()
	}
	rnd := rand.New(rand.NewSource(*seed))
	for i := 0; i < *n; i++ {
		if i%*group == 0 {
			enc.Encode(ev{"op": "reset", "group": fmt.Sprintf("random-%d-%d", *seed, i / *group)})
		}
		c := &oeCase{ID: 1000000 + i, Carrier: oeCarriers[rnd.Intn(len(oeCarriers))], Hops: *hops, Err: oeRandTree(rnd, 1+rnd.Intn(*depth))}
		for oeBodyBound(&c.Err) > 7000 {
			// stay below the client's 8 KiB limit on error bodies (beyond it the code is documented to be lost)
			c.Err = oeRandTree(rnd, 1+rnd.Intn(*depth))
		}
		if _, writer := oeWriterFail[c.Carrier]; !writer && !strings.HasPrefix(c.Carrier, "Resolve") && rnd.Intn(12) == 0 {
			// a non-conforming origin registry answering (random status, random code, ...)
			m := oeRandMsg(rnd, 1)
			if rnd.Intn(6) == 0 {
				m = []oeTok{{"E", ""}}
			}
			in := oeNode{K: "new", Code: oeRandCode(rnd), Msg: m, Detail: oeRandDetail(rnd), Kids: []oeNode{}}
			c.Err = oeNode{K: "http", Status: oeRandStatus(rnd), Msg: []oeTok{}, Detail: "none", Kids: []oeNode{in}, Resp: true}
			if oeBodyBound(&c.Err) > 7000 {
				c.Err.Kids[0].Msg, c.Err.Kids[0].Detail = []oeTok{{"B", "b1"}}, "d1"
			}
			c.Origin = true
		} else if c.Carrier == "Repositories" || c.Carrier == "Tags" || c.Carrier == "Referrers" {
			c.NItems = rnd.Intn(4)
			c.Page = [...]int{0, 0, 1, 2, 3}[rnd.Intn(5)]
		}
		if err := runCase(c); err != nil {
			return err
		}
	}
	fmt.Printf("{\"cases\":%d}\n", total)
	return nil
}
