package main

// Command `funcs` (property C20, specification family OciFuncs): builds *ociregistry.Funcs
// values by reflection, one per case, calls one Interface method on each with distinctive
// arguments and records what happened.  Every set field holds a recording stub; the error
// constructor, when set, records its calls too.  No judgement is made here: the event
// carries the inputs (as they really are in the built value) and projections of the outputs,
// and TLC decides (spec/OciFuncsTrace.tla).

import (
	"bufio"
	"context"
	"encoding/hex"
	"encoding/json"
	"errors"
	"flag"
	"fmt"
	"io"
	"math"
	"math/rand"
	"os"
	"reflect"
	"sort"
	"strconv"
	"strings"
	"time"

	"cuelabs.dev/go/oci/ociregistry"
)

func init() { commands["funcs"] = fnCmd }

// fnCase is one case: the inputs.  Events carry the same fields, so a trace (or a replay
// file) can be read back as a list of cases.
type fnCase struct {
	Op      string   `json:"op,omitempty"`
	ID      int      `json:"id"`
	M       string   `json:"m"`
	F       []string `json:"F"`
	Custom  bool     `json:"custom"`
	NilRecv bool     `json:"nilrecv"`
	Sret    string   `json:"sret"`           // what the stubs return: "val" (value, nil error), "err" (value and error), "zero" (zero values, nil error, nil iterator), "zeroerr" (zero values and an error), "mid" (iterators: item, error, item, item, error; otherwise like "err")
	ArgSeed int64    `json:"argseed,string"` // seed of the argument and result values
	Av      []string `json:"av"`             // abstract argument values per parameter after the context (TLC: ArgProfiles), empty: generated
	Ck      string   `json:"ck"`             // constructor kind: none, tag (a fresh error per call; default when custom), nil, same, byarg, panic
	Cx      string   `json:"cx"`             // kind of context passed: live (default), cancelled, expired, nil
	Pred    string   `json:"pred"`           // TLC's predicted outcome kind for exported cases, "-" otherwise (opaque here)
}

var (
	fnErrorType   = reflect.TypeOf((*error)(nil)).Elem()
	fnContextType = reflect.TypeOf((*context.Context)(nil)).Elem()
	fnReaderType  = reflect.TypeOf((*io.Reader)(nil)).Elem()
	fnBRType      = reflect.TypeOf((*ociregistry.BlobReader)(nil)).Elem()
	fnBWType      = reflect.TypeOf((*ociregistry.BlobWriter)(nil)).Elem()
	fnDescType    = reflect.TypeOf(ociregistry.Descriptor{})
	fnBytesType   = reflect.TypeOf([]byte(nil))
	fnFuncsType   = reflect.TypeOf(ociregistry.Funcs{})
)

// ---------------------------------------------------------------- tagged values
type fnCtxKey struct{}

type fnErr struct{ tag string }

func (e *fnErr) Error() string { return "harness error " + e.tag }

type fnReader struct{ id string }

func (r *fnReader) Read([]byte) (int, error) { return 0, io.EOF }

type fnBlobReader struct{ id string }

func (r *fnBlobReader) Read([]byte) (int, error)           { return 0, io.EOF }
func (r *fnBlobReader) Close() error                       { return nil }
func (r *fnBlobReader) Descriptor() ociregistry.Descriptor { return ociregistry.Descriptor{} }

type fnBlobWriter struct{ id string }

func (w *fnBlobWriter) Write(p []byte) (int, error) { return len(p), nil }
func (w *fnBlobWriter) Close() error                { return nil }
func (w *fnBlobWriter) Size() int64                 { return 0 }
func (w *fnBlobWriter) ChunkSize() int              { return 0 }
func (w *fnBlobWriter) ID() string                  { return w.id }
func (w *fnBlobWriter) Cancel() error               { return nil }
func (w *fnBlobWriter) Commit(ociregistry.Digest) (ociregistry.Descriptor, error) {
	return ociregistry.Descriptor{}, nil
}

// ---------------------------------------------------------------- the method table, by reflection
// fnFields lists the function-valued fields of Funcs other than NewError, without the trailing "_".
func fnFields() []string {
	var out []string
	for i := 0; i < fnFuncsType.NumField(); i++ {
		f := fnFuncsType.Field(i)
		if f.Type.Kind() == reflect.Func && f.Name != "NewError" && strings.HasSuffix(f.Name, "_") {
			out = append(out, strings.TrimSuffix(f.Name, "_"))
		}
	}
	return out
}

func fnInterfaceMethods() []string {
	t := reflect.TypeOf((*ociregistry.Interface)(nil)).Elem()
	var out []string
	for i := 0; i < t.NumMethod(); i++ {
		if t.Method(i).IsExported() {
			out = append(out, t.Method(i).Name)
		}
	}
	return out
}

// fnIsSeq reports whether t is an iterator type func(yield func(T, error) bool).
func fnIsSeq(t reflect.Type) bool {
	if t.Kind() != reflect.Func || t.NumIn() != 1 || t.NumOut() != 0 {
		return false
	}
	y := t.In(0)
	return y.Kind() == reflect.Func && y.NumIn() == 2 && y.In(1) == fnErrorType && y.NumOut() == 1 && y.Out(0).Kind() == reflect.Bool
}

func fnIterMethods() []string {
	var out []string
	for _, m := range fnFields() {
		f, _ := fnFuncsType.FieldByName(m + "_")
		for i := 0; i < f.Type.NumOut(); i++ {
			if fnIsSeq(f.Type.Out(i)) {
				out = append(out, m)
				break
			}
		}
	}
	return out
}

// ---------------------------------------------------------------- values
var fnOddStrings = []string{"", " ", "a b", "x/y/../z", "\"q\"", "päth/ü", "sha256:", "%00", "a\tb", strings.Repeat("r", 300)}
var fnOddInts = []int64{0, 1, -1, math.MaxInt64, math.MinInt64, math.MaxInt32, 1 << 40}

// fnGen makes a value of type t; k distinguishes the positions within one call so that two
// arguments of the same type are (almost always) different and a swap is visible.
func fnGen(t reflect.Type, rnd *rand.Rand, k string) reflect.Value {
	switch {
	case t == fnContextType:
		return reflect.ValueOf(context.WithValue(context.Background(), fnCtxKey{}, fmt.Sprintf("ctx#%s-%d", k, rnd.Int63()))).Convert(t)
	case t == fnReaderType:
		return reflect.ValueOf(&fnReader{id: fmt.Sprintf("%s-%d", k, rnd.Int63())}).Convert(t)
	case t == fnBRType:
		return reflect.ValueOf(&fnBlobReader{id: fmt.Sprintf("%s-%d", k, rnd.Int63())}).Convert(t)
	case t == fnBWType:
		return reflect.ValueOf(&fnBlobWriter{id: fmt.Sprintf("%s-%d", k, rnd.Int63())}).Convert(t)
	case t == fnDescType:
		d := ociregistry.Descriptor{
			MediaType: "application/x." + k + fmt.Sprint(rnd.Intn(1000)),
			Digest:    ociregistry.Digest(fnGenDigest(rnd)),
			Size:      rnd.Int63n(1 << 40),
		}
		if rnd.Intn(3) == 0 {
			d.Annotations = map[string]string{"k" + fmt.Sprint(rnd.Intn(9)): fnGenString(rnd, k), "z": "1"}
		}
		if rnd.Intn(4) == 0 {
			d.ArtifactType = "art/" + k
		}
		return reflect.ValueOf(d)
	case t == fnBytesType:
		if rnd.Intn(8) == 0 {
			return reflect.Zero(t)
		}
		b := make([]byte, rnd.Intn(24))
		rnd.Read(b)
		return reflect.ValueOf(b)
	case t.Kind() == reflect.String:
		v := reflect.New(t).Elem()
		if t.Name() == "Digest" {
			v.SetString(fnGenDigest(rnd))
		} else {
			v.SetString(fnGenString(rnd, k))
		}
		return v
	case t.Kind() == reflect.Int || t.Kind() == reflect.Int64 || t.Kind() == reflect.Int32:
		v := reflect.New(t).Elem()
		var n int64
		if rnd.Intn(5) == 0 {
			n = fnOddInts[rnd.Intn(len(fnOddInts))]
		} else {
			n = rnd.Int63() - rnd.Int63()
		}
		if t.Kind() == reflect.Int32 {
			n = int64(int32(n))
		}
		v.SetInt(n)
		return v
	case t.Kind() == reflect.Bool:
		return reflect.ValueOf(rnd.Intn(2) == 0).Convert(t)
	}
	panic(fmt.Sprintf("harness: cannot make a value of type %v (Funcs has a signature this harness does not know)", t))
}

func fnGenString(rnd *rand.Rand, k string) string {
	if rnd.Intn(6) == 0 {
		return fnOddStrings[rnd.Intn(len(fnOddStrings))]
	}
	return fmt.Sprintf("%s-%x", k, rnd.Int63())
}

func fnGenDigest(rnd *rand.Rand) string {
	b := make([]byte, 32)
	rnd.Read(b)
	if rnd.Intn(10) == 0 {
		return "bogus:" + hex.EncodeToString(b[:4])
	}
	return "sha256:" + hex.EncodeToString(b)
}

// fnContext makes the context of the given kind; all non-nil ones carry a tag.
func fnContext(kind string, rnd *rand.Rand, k string) reflect.Value {
	base := context.WithValue(context.Background(), fnCtxKey{}, fmt.Sprintf("ctx#%s-%d", k, rnd.Int63()))
	var ctx context.Context
	switch kind {
	case "", "live":
		ctx = base
	case "cancelled":
		c, cancel := context.WithCancel(base)
		cancel()
		ctx = c
	case "expired":
		c, cancel := context.WithDeadline(base, time.Unix(1, 0))
		_ = cancel // released when the case is done; the deadline passed long ago
		ctx = c
	case "nil":
		return reflect.Zero(fnContextType)
	default:
		panic(fmt.Sprintf("harness: unknown context kind %q", kind))
	}
	return reflect.ValueOf(&ctx).Elem()
}

// fnContextKind projects the context really passed back to its kind.
func fnContextKind(v reflect.Value) string {
	if v.IsNil() {
		return "nil"
	}
	switch v.Interface().(context.Context).Err() {
	case nil:
		return "live"
	case context.Canceled:
		return "cancelled"
	case context.DeadlineExceeded:
		return "expired"
	}
	return "other"
}

// fnConcrete concretises an abstract argument value by the Go type of the parameter:
// "dist" a distinctive ordinary value, "empty" the empty string / a non-nil empty reader or
// slice, "nil" and "zero" the zero value, anything else an integer literal.
func fnConcrete(t reflect.Type, a string, rnd *rand.Rand, k string) reflect.Value {
	switch a {
	case "dist":
		switch {
		case t.Kind() == reflect.String && t.Name() != "Digest":
			v := reflect.New(t).Elem()
			v.SetString(fmt.Sprintf("%s-%x", k, rnd.Int63()))
			return v
		case t.Kind() == reflect.String:
			b := make([]byte, 32)
			rnd.Read(b)
			v := reflect.New(t).Elem()
			v.SetString("sha256:" + hex.EncodeToString(b))
			return v
		case t.Kind() == reflect.Int || t.Kind() == reflect.Int64:
			v := reflect.New(t).Elem()
			v.SetInt(1000 + rnd.Int63n(1<<40))
			return v
		case t == fnBytesType:
			b := make([]byte, 1+rnd.Intn(24))
			rnd.Read(b)
			return reflect.ValueOf(b)
		}
		return fnGen(t, rnd, k)
	case "nil", "zero":
		return reflect.Zero(t)
	case "empty":
		switch {
		case t == fnReaderType:
			return reflect.ValueOf(&fnReader{id: "empty-" + k}).Convert(t)
		case t == fnBytesType:
			return reflect.ValueOf([]byte{})
		}
		return reflect.Zero(t)
	}
	if t.Kind() == reflect.Int || t.Kind() == reflect.Int64 {
		n, err := strconv.ParseInt(a, 10, 64)
		if err == nil {
			v := reflect.New(t).Elem()
			v.SetInt(n)
			return v
		}
	}
	panic(fmt.Sprintf("harness: abstract argument value %q does not fit a parameter of type %v", a, t))
}

// fnSpecials lists the abstract values a parameter of type t may take in random cases.
func fnSpecials(t reflect.Type) []string {
	switch {
	case t == fnReaderType || t == fnBytesType:
		return []string{"nil", "empty", "dist"}
	case t == fnDescType:
		return []string{"zero", "dist"}
	case t.Kind() == reflect.String:
		return []string{"empty", "dist"}
	case t.Kind() == reflect.Int || t.Kind() == reflect.Int64:
		return []string{"0", "-1", "5", "3", "1", "dist"}
	}
	return []string{"dist"}
}

// fnRender projects a value to a string; identity-carrying values render as their tag.
func fnRender(v reflect.Value) string {
	if !v.IsValid() {
		return "invalid"
	}
	if v.IsZero() {
		return "zero"
	}
	t := v.Type()
	if t.Kind() == reflect.Interface {
		switch x := v.Interface().(type) {
		case *fnReader:
			return "reader#" + x.id
		case *fnBlobReader:
			return "blobreader#" + x.id
		case *fnBlobWriter:
			return "blobwriter#" + x.id
		case context.Context:
			if s, ok := x.Value(fnCtxKey{}).(string); ok {
				return s
			}
			return "ctx?"
		}
		return fmt.Sprintf("other:%T", v.Interface())
	}
	switch {
	case t == fnDescType:
		b, _ := json.Marshal(v.Interface())
		return "desc:" + string(b)
	case t == fnBytesType:
		return "bytes:" + hex.EncodeToString(v.Bytes())
	case t.Kind() == reflect.String:
		return "s:" + v.String()
	case t.Kind() == reflect.Int || t.Kind() == reflect.Int64 || t.Kind() == reflect.Int32:
		return fmt.Sprintf("i:%d", v.Int())
	case t.Kind() == reflect.Bool:
		return fmt.Sprintf("b:%v", v.Bool())
	}
	return fmt.Sprintf("other:%T", v.Interface())
}

// fnErrRec projects an error: its identity (the tag, if it is exactly one of the error values
// made by this harness), its class, and the method name its message carries.
func fnErrRec(err error) ev {
	if err == nil {
		return ev{"nil": true, "tag": "-", "unsupported": false, "msgname": "-"}
	}
	tag := "-"
	if fe, ok := err.(*fnErr); ok {
		tag = fe.tag
	}
	name := "-"
	suffix := ": " + ociregistry.ErrUnsupported.Error()
	if msg := err.Error(); strings.HasSuffix(msg, suffix) {
		name = strings.TrimSuffix(msg, suffix)
	}
	return ev{"nil": false, "tag": tag, "unsupported": errors.Is(err, ociregistry.ErrUnsupported), "msgname": name}
}

func fnErrOf(v reflect.Value) error {
	if v.IsNil() {
		return nil
	}
	return v.Interface().(error)
}

// ---------------------------------------------------------------- one case
type fnRun struct {
	c      fnCase
	calls  []ev // stub invocations, in order
	ctor   []ev // constructor invocations, in order
	nctor  int
	passed []string
}

// fnProgram makes the results the stub of `field` returns (the same values at every call).
// A Seq result is a real iterator over programmed pairs; the pairs are returned rendered too.
func fnProgram(ft reflect.Type, field, sret string, rnd *rand.Rand) (outs []reflect.Value, vals []string, errRec ev, yields []ev, seqnil bool) {
	vals = []string{}
	yields = []ev{}
	errRec = fnErrRec(nil)
	for i := 0; i < ft.NumOut(); i++ {
		ot := ft.Out(i)
		switch {
		case ot == fnErrorType:
			if sret == "err" || sret == "zeroerr" || sret == "mid" {
				e := &fnErr{tag: fmt.Sprintf("stub#%s-%d", field, rnd.Int63())}
				outs = append(outs, reflect.ValueOf(e).Convert(ot))
				errRec = fnErrRec(e)
			} else {
				outs = append(outs, reflect.Zero(ot))
			}
		case fnIsSeq(ot):
			if sret == "zero" {
				// the nil iterator: the delegate's result all the same
				outs = append(outs, reflect.Zero(ot))
				seqnil = true
				continue
			}
			yt := ot.In(0)
			var pairs [][]reflect.Value
			if sret == "zeroerr" {
				e := &fnErr{tag: fmt.Sprintf("stubseq#%s-%d", field, rnd.Int63())}
				pairs = append(pairs, []reflect.Value{reflect.Zero(yt.In(0)), reflect.ValueOf(e).Convert(fnErrorType)})
			} else if sret == "mid" {
				for j := 0; j < 5; j++ {
					if j == 1 || j == 4 {
						e := &fnErr{tag: fmt.Sprintf("stubseq#%s-%d-%d", field, j, rnd.Int63())}
						pairs = append(pairs, []reflect.Value{reflect.Zero(yt.In(0)), reflect.ValueOf(e).Convert(fnErrorType)})
					} else {
						pairs = append(pairs, []reflect.Value{fnGen(yt.In(0), rnd, fmt.Sprintf("%s-item%d", field, j)), reflect.Zero(fnErrorType)})
					}
				}
			} else if sret == "err" {
				pairs = append(pairs, []reflect.Value{fnGen(yt.In(0), rnd, field+"-item0"), reflect.Zero(fnErrorType)})
				e := &fnErr{tag: fmt.Sprintf("stubseq#%s-%d", field, rnd.Int63())}
				pairs = append(pairs, []reflect.Value{reflect.Zero(yt.In(0)), reflect.ValueOf(e).Convert(fnErrorType)})
			} else {
				for j := 0; j < 2; j++ {
					pairs = append(pairs, []reflect.Value{fnGen(yt.In(0), rnd, fmt.Sprintf("%s-item%d", field, j)), reflect.Zero(fnErrorType)})
				}
			}
			for _, p := range pairs {
				yields = append(yields, ev{"v": fnRender(p[0]), "e": fnErrRec(fnErrOf(p[1]))})
			}
			seq := reflect.MakeFunc(ot, func(args []reflect.Value) []reflect.Value {
				for _, p := range pairs {
					if !args[0].Call(p)[0].Bool() {
						break
					}
				}
				return nil
			})
			outs = append(outs, seq)
		default:
			v := fnGen(ot, rnd, field+"-result")
			if sret == "zero" || sret == "zeroerr" {
				v = reflect.Zero(ot)
			}
			outs = append(outs, v)
			vals = append(vals, fnRender(v))
		}
	}
	return
}

// fnDrive consumes an iterator: the consumer keeps asking (cont) or declines after the first
// pair; at most limit pairs are taken.
func fnDrive(seq reflect.Value, policy string, limit int) (out []ev) {
	out = []ev{}
	seenErr := false
	y := reflect.MakeFunc(seq.Type().In(0), func(args []reflect.Value) []reflect.Value {
		if len(out) >= limit {
			panic(fnStop) // an iterator that does not stop by itself is cut off here
		}
		err := fnErrOf(args[1])
		out = append(out, ev{"v": fnRender(args[0]), "e": fnErrRec(err)})
		more := true
		switch policy {
		case "all": // keeps accepting, also after an error
		case "first": // declines after the first pair
			more = false
		case "aterr": // declines at the first pair that carries an error
			more = err == nil
		case "aftererr": // declines one pair after the first error
			more = !seenErr
			if err != nil {
				seenErr = true
			}
		}
		return []reflect.Value{reflect.ValueOf(more)}
	})
	defer func() {
		if r := recover(); r != nil && r != any(fnStop) {
			panic(r)
		}
	}()
	seq.Call([]reflect.Value{y})
	return out
}

var fnStop = new(int)

// fnSameErr is the one error value the constructor of kind "same" returns every time.
var fnSameErr = &fnErr{tag: "ctor#same"}

func fnExec(c fnCase, fields []string) ev {
	run := &fnRun{c: c, calls: []ev{}, ctor: []ev{}, passed: []string{}}
	rnd := rand.New(rand.NewSource(c.ArgSeed))
	// the table
	var tbl *ociregistry.Funcs
	ckind := "none"
	prog := ev{"vals": []string{}, "err": fnErrRec(nil), "yields": []ev{}, "seqnil": false}
	if !c.NilRecv {
		tbl = &ociregistry.Funcs{}
		tv := reflect.ValueOf(tbl).Elem()
		set := map[string]bool{}
		for _, f := range c.F {
			set[f] = true
		}
		for _, field := range fields { // fixed order: the values drawn do not depend on the order of c.F
			frnd := rand.New(rand.NewSource(rnd.Int63()))
			if !set[field] {
				continue
			}
			fv := tv.FieldByName(field + "_")
			outs, vals, er, ys, sn := fnProgram(fv.Type(), field, c.Sret, frnd)
			if field == c.M {
				prog = ev{"vals": vals, "err": er, "yields": ys, "seqnil": sn}
			}
			name := field
			fv.Set(reflect.MakeFunc(fv.Type(), func(args []reflect.Value) []reflect.Value {
				r := []string{}
				for _, a := range args {
					r = append(r, fnRender(a))
				}
				run.calls = append(run.calls, ev{"field": name, "args": r})
				return outs
			}))
			delete(set, field)
		}
		if len(set) > 0 {
			panic(fmt.Sprintf("harness: case %d names fields Funcs does not have: %v", c.ID, set))
		}
		if c.Custom {
			kind := c.Ck
			if kind == "" || kind == "none" {
				kind = "tag"
			}
			ckind = kind
			byarg := map[string]*fnErr{}
			tbl.NewError = func(ctx context.Context, methodName, repo string) error {
				run.nctor++
				rec := ev{"name": methodName, "repo": fnRender(reflect.ValueOf(repo)), "ctx": fnRender(reflect.ValueOf(&ctx).Elem())}
				run.ctor = append(run.ctor, rec)
				switch kind {
				case "nil":
					rec["ret"] = "nil"
					return nil
				case "same":
					rec["ret"] = fnSameErr.tag
					return fnSameErr
				case "byarg":
					k := methodName + "|" + repo
					if byarg[k] == nil {
						byarg[k] = &fnErr{tag: "ctor#by:" + k}
					}
					rec["ret"] = byarg[k].tag
					return byarg[k]
				case "panic":
					e := &fnErr{tag: fmt.Sprintf("ctorpanic#%d-%d", run.nctor, c.ArgSeed)}
					rec["ret"] = e.tag
					panic(e)
				case "tag":
					e := &fnErr{tag: fmt.Sprintf("ctor#%d-%d", run.nctor, c.ArgSeed)}
					rec["ret"] = e.tag
					return e
				}
				panic(fmt.Sprintf("harness: unknown constructor kind %q", kind))
			}
		}
	}
	// the inputs as they really are in the value built
	actualF := []string{}
	custom := false
	if tbl != nil {
		tv := reflect.ValueOf(tbl).Elem()
		for _, field := range fields {
			if !tv.FieldByName(field + "_").IsNil() {
				actualF = append(actualF, field)
			}
		}
		custom = tbl.NewError != nil
	}
	e := ev{"op": "call", "id": c.ID, "m": c.M, "F": actualF, "custom": custom, "nilrecv": tbl == nil, "ck": ckind,
		"sret": c.Sret, "argseed": fmt.Sprint(c.ArgSeed), "pred": c.Pred, "prog": prog}
	// the call
	av := c.Av
	if av == nil {
		av = []string{}
	}
	e["av"] = av
	var reg ociregistry.Interface = tbl
	mv := reflect.ValueOf(reg).MethodByName(c.M)
	if !mv.IsValid() {
		panic(fmt.Sprintf("harness: Interface has no method %q", c.M))
	}
	mt := mv.Type()
	args := make([]reflect.Value, mt.NumIn())
	arnd := rand.New(rand.NewSource(c.ArgSeed ^ 0x5eed))
	if len(c.Av) > 0 && len(c.Av) != mt.NumIn()-1 {
		panic(fmt.Sprintf("harness: case %d gives %d argument values for %s, which has %d parameters after the context", c.ID, len(c.Av), c.M, mt.NumIn()-1))
	}
	for i := range args {
		if i == 0 && mt.In(0) == fnContextType {
			args[i] = fnContext(c.Cx, arnd, "a0")
			e["cx"] = fnContextKind(args[i])
		} else if len(c.Av) > 0 && i > 0 {
			args[i] = fnConcrete(mt.In(i), c.Av[i-1], arnd, fmt.Sprintf("a%d", i))
		} else {
			args[i] = fnGen(mt.In(i), arnd, fmt.Sprintf("a%d", i))
		}
		run.passed = append(run.passed, fnRender(args[i]))
	}
	got := []string{}
	errRec := fnErrRec(nil)
	yields, yields1, yieldsE, yieldsA := []ev{}, []ev{}, []ev{}, []ev{}
	iter := false
	seqnil := false
	var errv error
	pan := func() (p any) {
		defer func() { p = recover() }()
		outs := mv.Call(args)
		for _, o := range outs {
			switch {
			case o.Type() == fnErrorType:
				errv = fnErrOf(o)
				errRec = fnErrRec(errv)
			case fnIsSeq(o.Type()):
				iter = true
				if o.IsNil() {
					seqnil = true // a nil iterator is recorded, not ranged over
					continue
				}
				yields = fnDrive(o, "all", 8)
				yields1 = fnDrive(o, "first", 8)
				yieldsE = fnDrive(o, "aterr", 8)
				yieldsA = fnDrive(o, "aftererr", 8)
			default:
				got = append(got, fnRender(o))
			}
		}
		return nil
	}()
	e["passed"] = run.passed
	e["calls"] = run.calls
	e["ctor"] = run.ctor
	called := []string{}
	for _, c := range run.calls {
		called = append(called, c["field"].(string))
	}
	if pan != nil {
		e["op"] = "panic"
		e["panic"] = fmt.Sprint(pan)
		e["pval"] = "-" // identity of the panic value, if it is a value made by this harness
		if fe, ok := pan.(*fnErr); ok {
			e["pval"] = fe.tag
		}
		e["msg"] = fmt.Sprintf("%s panics: %v (stubs run: %v)", c.M, pan, called)
		return e
	}
	e["got"] = got
	e["err"] = errRec
	e["iter"] = iter
	e["seqnil"] = seqnil
	e["yields"] = yields
	e["yields1"] = yields1
	e["yieldsE"] = yieldsE
	e["yieldsA"] = yieldsA
	class := "nil"
	if iter && len(yields) > 0 {
		errRec = yields[len(yields)-1]["e"].(ev)
	}
	switch {
	case errRec["nil"].(bool):
	case strings.HasPrefix(errRec["tag"].(string), "ctor#"):
		class = "constructor's"
	case strings.HasPrefix(errRec["tag"].(string), "stub"):
		class = "stub's"
	case errRec["unsupported"].(bool):
		class = "unsupported(" + errRec["msgname"].(string) + ")"
	default:
		class = "other"
	}
	e["msg"] = fmt.Sprintf("%s: stubs run %v, constructor calls %d, error %s, %d yields", c.M, called, len(run.ctor), class, len(yields))
	return e
}

// ---------------------------------------------------------------- the command
func fnCmd(args []string) error {
	fs := flag.NewFlagSet("funcs", flag.ExitOnError)
	seed := fs.Int64("seed", 1, "seed for random cases and for argument values")
	n := fs.Int("n", 0, "number of random cases (random method, field subset, constructor, receiver, stub mode, arguments)")
	casesFile := fs.String("cases", "", "file with one JSON case per line (as exported by TLC from OciFuncsMC)")
	replay := fs.String("replay", "", "trace or replay file: re-execute the cases of its events")
	group := fs.Int("group", 1, "cases per reset line")
	out := fs.String("out", "", "trace file")
	fs.Parse(args)
	f, err := os.Create(*out)
	if err != nil {
		return err
	}
	defer f.Close()
	bw := bufio.NewWriterSize(f, 1<<20)
	defer bw.Flush()
	enc := json.NewEncoder(bw)
	enc.SetEscapeHTML(false)
	fields := fnFields()
	methods := fnInterfaceMethods()
	iters := fnIterMethods()
	sort.Strings(methods)
	enc.Encode(ev{"op": "header", "fields": fields, "methods": methods, "iter": iters,
		"unsupported": ociregistry.ErrUnsupported.Error()})
	var cases []fnCase
	readCases := func(path string, fromEvents bool) error {
		cf, err := os.Open(path)
		if err != nil {
			return err
		}
		defer cf.Close()
		sc := bufio.NewScanner(cf)
		sc.Buffer(make([]byte, 1<<20), 1<<26)
		for sc.Scan() {
			if len(strings.TrimSpace(sc.Text())) == 0 {
				continue
			}
			var c fnCase
			if err := json.Unmarshal(sc.Bytes(), &c); err != nil {
				return fmt.Errorf("case: %v", err)
			}
			if fromEvents && c.Op != "call" && c.Op != "panic" {
				continue
			}
			if !fromEvents && c.ArgSeed == 0 {
				c.ArgSeed = *seed*1000003 + int64(c.ID)
			}
			if c.Pred == "" {
				c.Pred = "-"
			}
			if c.Sret == "" {
				c.Sret = "val"
			}
			cases = append(cases, c)
		}
		return sc.Err()
	}
	if *replay != "" {
		if err := readCases(*replay, true); err != nil {
			return err
		}
	}
	if *casesFile != "" {
		if err := readCases(*casesFile, false); err != nil {
			return err
		}
	}
	rnd := rand.New(rand.NewSource(*seed))
	for i := 0; i < *n; i++ {
		c := fnCase{ID: 1000000 + i, M: methods[rnd.Intn(len(methods))], F: []string{}, Sret: []string{"val", "err", "zero", "zeroerr", "mid"}[rnd.Intn(5)],
			ArgSeed: rnd.Int63(), Pred: "-"}
		if rnd.Intn(12) == 0 {
			c.NilRecv = true
		} else {
			p := []float64{0.08, 0.5, 0.5, 0.92}[rnd.Intn(4)]
			for _, fld := range fields {
				if rnd.Float64() < p {
					c.F = append(c.F, fld)
				}
			}
			c.Custom = rnd.Intn(2) == 0
			if c.Custom {
				c.Ck = []string{"tag", "tag", "nil", "same", "byarg", "panic"}[rnd.Intn(6)]
			}
		}
		c.Cx = []string{"live", "live", "live", "cancelled", "expired", "nil"}[rnd.Intn(6)]
		if rnd.Intn(2) == 0 {
			mt := reflect.TypeOf((*ociregistry.Interface)(nil)).Elem()
			mm, _ := mt.MethodByName(c.M)
			c.Av = []string{}
			for j := 1; j < mm.Type.NumIn(); j++ {
				sp := fnSpecials(mm.Type.In(j))
				c.Av = append(c.Av, sp[rnd.Intn(len(sp))])
			}
		}
		cases = append(cases, c)
	}
	panics := 0
	for i, c := range cases {
		if i%*group == 0 {
			enc.Encode(ev{"op": "reset", "at": c.ID})
		}
		e := fnExec(c, fields)
		if e["op"] == "panic" {
			panics++
		}
		enc.Encode(e)
	}
	fmt.Printf("{\"cases\":%d,\"panics\":%d}\n", len(cases), panics)
	return nil
}
