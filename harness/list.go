package main

// Command `list` (C05): listings of repositories, tags and referrers through stacks of
// ocimem / ociclient+ociserver hops / ocifilter.Select / ocifilter.Sub / ociunify / ocidebug
// (and a harness-made source whose listings fail part-way).
//
// A case is a stack (tree of nodes, the same records spec/OciList.tla uses), the contents of
// its in-memory registries, a start string and a consumer stop point k.  Cases come from TLC
// (-cfgs: configurations exported by spec/OciListMC.tla, concretised here through fixed
// name tables) and from a seeded generator (larger universes, random valid names, start
// strings with URL metacharacters).  For every case the real stack is built (every node
// through stackEnv.build; Select with a predicate directly), a recording http.Handler sits
// in front of every ociserver, and the listing is driven by a consumer that declines at its
// k-th call.  The event holds every page request the recording handlers saw and every call
// of the consumer; names are projected to their rank in the sorted universe.  No oracle
// logic here: spec/OciListTrace.tla decides.

import (
	"bufio"
	"bytes"
	"context"
	"encoding/json"
	"errors"
	"flag"
	"fmt"
	"math/rand"
	"net/http"
	"net/http/httptest"
	"net/url"
	"os"
	"sort"
	"strconv"
	"strings"
	"sync"
	"time"

	"cuelabs.dev/go/oci/ociregistry"
	"cuelabs.dev/go/oci/ociregistry/ocifilter"
	"cuelabs.dev/go/oci/ociregistry/ocimem"
	"github.com/opencontainers/go-digest"
)

func init() { commands["list"] = listCmd }

// lNode is a node of a stack; the JSON field names are those of the TLA+ records.
type lNode struct {
	T      string `json:"t"`
	S      []int  `json:"s,omitempty"` // mem: elements (1-based ranks in the universe underneath)
	Absent bool   `json:"absent,omitempty"`
	Alt    bool   `json:"alt,omitempty"` // mem, referrers: the manifests are stored under the index media type
	Hop    int    `json:"hop,omitempty"`
	N      int    `json:"n,omitempty"`
	Max    int    `json:"max,omitempty"`
	Link   bool   `json:"link,omitempty"`
	P      []int  `json:"p,omitempty"` // select: admitted elements
	Lo     int    `json:"lo,omitempty"`
	Cnt    int    `json:"cnt,omitempty"`
	At     int    `json:"at,omitempty"` // fail: listings fail on reaching an element >= At
	X      *lNode `json:"x,omitempty"`
	Y      *lNode `json:"y,omitempty"`
}

// abstract renders a node with exactly the fields the specification reads for its type.
func (n *lNode) abstract() ev {
	ints := func(xs []int) []int {
		if xs == nil {
			return []int{}
		}
		return xs
	}
	switch n.T {
	case "mem":
		return ev{"t": "mem", "s": ints(n.S), "absent": n.Absent, "alt": n.Alt}
	case "http":
		return ev{"t": "http", "hop": n.Hop, "n": n.N, "max": n.Max, "link": n.Link, "x": n.X.abstract()}
	case "select":
		return ev{"t": "select", "p": ints(n.P), "x": n.X.abstract()}
	case "sub":
		return ev{"t": "sub", "lo": n.Lo, "cnt": n.Cnt, "x": n.X.abstract()}
	case "unify":
		return ev{"t": "unify", "x": n.X.abstract(), "y": n.Y.abstract()}
	case "debug":
		return ev{"t": "debug", "x": n.X.abstract()}
	case "fail":
		return ev{"t": "fail", "at": n.At, "x": n.X.abstract()}
	}
	panic("bad node type " + n.T)
}

func (n *lNode) String() string {
	switch n.T {
	case "mem":
		if n.Absent {
			return "mem:absent"
		}
		if n.Alt {
			return fmt.Sprintf("mem:alt%v", n.S)
		}
		return fmt.Sprintf("mem%v", n.S)
	case "http":
		return fmt.Sprintf("http:page%d+max%d+link%v(%v)", n.N, n.Max, n.Link, n.X)
	case "select":
		return fmt.Sprintf("select%v(%v)", n.P, n.X)
	case "sub":
		return fmt.Sprintf("sub:%d+%d(%v)", n.Lo, n.Cnt, n.X)
	case "unify":
		return fmt.Sprintf("unify(%v,%v)", n.X, n.Y)
	case "fail":
		return fmt.Sprintf("fail:%d(%v)", n.At, n.X)
	}
	return n.T + "(" + n.X.String() + ")"
}

func (n *lNode) findSub() *lNode {
	if n == nil {
		return nil
	}
	if n.T == "sub" {
		return n
	}
	if s := n.X.findSub(); s != nil {
		return s
	}
	return n.Y.findSub()
}

// lCase is one concrete listing.
type lCase struct {
	Src   string   `json:"src"`
	Kind  string   `json:"kind"` // repos | tags | refs
	Node  *lNode   `json:"node"`
	Univ  []string `json:"univ"`  // names of the universe underneath, ascending (refs: referrer ids by digest)
	Start string   `json:"start"` // start string as the caller passes it
	K     int      `json:"k"`     // the consumer declines at its K-th call (0: never)
	// stop points of the runs of the listing value (the first is K); empty: chosen by run
	Passes []int `json:"passes,omitempty"`
	// the listing's context is done once the consumer has received Cut items (0: before the
	// listing is created, -1: never); Deadline: past its deadline rather than cancelled
	Cut      int  `json:"cut"`
	Deadline bool `json:"deadline,omitempty"`
	// Raw (tags only): the tag names are served by an overlay on the in-memory registry and may
	// contain bytes ocimem would refuse (URL metacharacters): "any registry contents" includes
	// what a foreign backend lists.
	Raw bool `json:"raw,omitempty"`
}

// lRawTags lists the tags of one repository from a fixed sorted slice; everything else is
// the registry underneath.
type lRawTags struct {
	ociregistry.Interface
	repo  string
	names []string // ascending
}

func (r *lRawTags) Tags(ctx context.Context, repo string, startAfter string) ociregistry.Seq[string] {
	if repo != r.repo {
		return r.Interface.Tags(ctx, repo, startAfter)
	}
	return func(yield func(string, error) bool) {
		for _, s := range r.names {
			if s > startAfter && !yield(s, nil) {
				return
			}
		}
	}
}

const (
	lSubPrefix = "pfx/sub" // what stacks.go gives ocifilter.Sub
	lRepo      = "list/repo-1"
	lMtImage   = "application/vnd.oci.image.manifest.v1+json"
	lMtConfig  = "application/vnd.oci.image.config.v1+json"
	lMtIndex   = "application/vnd.oci.image.index.v1+json"
)

// topUniv is the universe as the caller of the stack sees it.
func (c *lCase) topUniv() []string {
	if s := c.Node.findSub(); s != nil && c.Kind == "repos" {
		out := []string{}
		for i := s.Lo; i < s.Lo+s.Cnt && i < len(c.Univ); i++ {
			out = append(out, strings.TrimPrefix(c.Univ[i], lSubPrefix+"/"))
		}
		return out
	}
	return c.Univ
}

// ---------------------------------------------------------------- referrer manifests

type lManifest struct {
	data []byte
	dig  digest.Digest
}

var lConfig = []byte("{}")

func lImage(nonce string, subject *lManifest) *lManifest {
	sub := ""
	if subject != nil {
		sub = fmt.Sprintf(`,"subject":{"mediaType":%q,"digest":%q,"size":%d}`, lMtImage, subject.dig, len(subject.data))
	}
	data := fmt.Sprintf(`{"schemaVersion":2,"mediaType":%q,"config":{"mediaType":%q,"digest":%q,"size":%d},"layers":[]%s,"annotations":{"nonce":%q}}`,
		lMtImage, lMtConfig, digest.FromBytes(lConfig), len(lConfig), sub, nonce)
	return &lManifest{data: []byte(data), dig: digest.FromBytes([]byte(data))}
}

var lSubject = lImage("subject", nil)

// lReferrers returns n referrer manifests of lSubject in ascending digest order, and their digests.
func lReferrers(n int) ([]*lManifest, []string) {
	ms := make([]*lManifest, n)
	for i := range ms {
		ms[i] = lImage(fmt.Sprintf("referrer-%d-of-%d", i, n), lSubject)
	}
	sort.Slice(ms, func(i, j int) bool { return ms[i].dig < ms[j].dig })
	names := make([]string, n)
	for i, m := range ms {
		names[i] = string(m.dig)
	}
	return ms, names
}

// ---------------------------------------------------------------- building the stack

type lReq struct {
	Hop      int    `json:"hop"`
	N        int    `json:"n"`        // query n (-1: none, -2: not a number)
	Last     int    `json:"last"`     // position of query last in the universe at this hop
	LastS    string `json:"lasts"`    // the string itself (diagnosis)
	Cnt      int    `json:"cnt"`      // items in the response
	Link     bool   `json:"link"`     // Link header present
	LinkLast int    `json:"linklast"` // position of the Link's last parameter (-1: no Link)
	LinkN    int    `json:"linkn"`    // the Link's n parameter (-1: no Link / none)
	LinkSame bool   `json:"linksame"` // the Link's path is the request's path
	Code     string `json:"code"`     // error code of a failure response
	Status   int    `json:"status"`
}

type lStack struct {
	env  *stackEnv
	top  ociregistry.Interface
	mu   sync.Mutex
	reqs []lReq
	cap  int // page requests after which the recording handlers refuse (a pager that never ends)
}

func (st *lStack) take() []lReq {
	st.mu.Lock()
	defer st.mu.Unlock()
	r := st.reqs
	st.reqs = nil
	if r == nil {
		r = []lReq{}
	}
	return r
}

// recorder returns the recording handler of one hop.  The response of the real server
// is captured first and the request logged before a byte reaches the client, so that the
// log order (requests of lower hops, this request, the consumer calls it causes) is
// the causal order.
func (st *lStack) recorder(hop int, univ []string, h http.Handler) http.Handler {
	return http.HandlerFunc(func(w http.ResponseWriter, req *http.Request) {
		p := req.URL.Path
		isList := p == "/v2/_catalog" || strings.HasSuffix(p, "/tags/list") || strings.Contains(p, "/referrers/")
		if !isList {
			h.ServeHTTP(w, req)
			return
		}
		st.mu.Lock()
		over := st.cap > 0 && len(st.reqs) >= st.cap
		st.mu.Unlock()
		rec := httptest.NewRecorder()
		if over {
			// stop a listing that does not end by itself; the extra request stays in the log
			rec.WriteHeader(http.StatusLoopDetected)
			rec.Body.WriteString(`{"errors":[{"code":"VERIF_RUNAWAY","message":"too many page requests"}]}`)
		} else {
			h.ServeHTTP(rec, req)
		}
		q := req.URL.Query()
		r := lReq{Hop: hop, N: -1, LastS: q.Get("last"), LinkLast: -1, LinkN: -1, Status: rec.Code}
		if s := q.Get("n"); s != "" {
			if v, err := strconv.Atoi(s); err == nil {
				r.N = v
			} else {
				r.N = -2
			}
		}
		r.Last = listPos(univ, r.LastS)
		if rec.Code == http.StatusOK {
			var body struct {
				Repos     []string          `json:"repositories"`
				Tags      []string          `json:"tags"`
				Manifests []json.RawMessage `json:"manifests"`
			}
			if err := json.Unmarshal(rec.Body.Bytes(), &body); err != nil {
				r.Cnt = -1
			} else {
				r.Cnt = len(body.Repos) + len(body.Tags) + len(body.Manifests)
			}
		} else {
			var body struct {
				Errors []struct {
					Code string `json:"code"`
				} `json:"errors"`
			}
			json.Unmarshal(rec.Body.Bytes(), &body)
			r.Code = "?"
			if len(body.Errors) > 0 {
				r.Code = body.Errors[0].Code
			}
		}
		if link := rec.Header().Get("Link"); link != "" {
			r.Link = true
			r.LinkLast = -2
			if s, ok := strings.CutPrefix(link, "<"); ok {
				if s, _, ok = strings.Cut(s, ">"); ok {
					if u, err := url.Parse(s); err == nil {
						lq := u.Query()
						r.LinkLast = listPos(univ, lq.Get("last"))
						if v, err := strconv.Atoi(lq.Get("n")); err == nil {
							r.LinkN = v
						}
						r.LinkSame = u.Path == req.URL.Path
					}
				}
			}
		}
		st.mu.Lock()
		st.reqs = append(st.reqs, r)
		st.mu.Unlock()
		for k, v := range rec.Header() {
			w.Header()[k] = v
		}
		w.WriteHeader(rec.Code)
		w.Write(rec.Body.Bytes())
	})
}

// node builds one node through stackEnv.build, handing it the already built children in
// place of its `mem` leaves.
func (st *lStack) node(expr string, children ...ociregistry.Interface) (ociregistry.Interface, error) {
	env := st.env
	nm := len(env.mems)
	i := 0
	env.wrapMem = func(ociregistry.Interface) ociregistry.Interface {
		c := children[i]
		i++
		return c
	}
	defer func() { env.wrapMem = nil; env.wrapHandler = nil }()
	r, rest, err := env.build(expr)
	if err != nil || strings.TrimSpace(rest) != "" {
		return nil, fmt.Errorf("stack node %q: %v %q", expr, err, rest)
	}
	env.mems = env.mems[:nm] // the placeholder leaves
	return r, nil
}

// build constructs the stack for a case.  univ: the universe at this level; prefix: what a
// Sub above has put in front of repository names.
func (st *lStack) build(c *lCase, n *lNode, univ []string, prefix string, refs []*lManifest) (ociregistry.Interface, error) {
	switch n.T {
	case "mem":
		r, _, err := st.env.build("mem")
		if err != nil {
			return nil, err
		}
		m := st.env.mems[len(st.env.mems)-1]
		if c.Raw && c.Kind == "tags" && !n.Absent {
			bare := *n
			bare.S = nil
			names := []string{}
			for _, e := range n.S {
				names = append(names, univ[e-1])
			}
			sort.Strings(names)
			return &lRawTags{Interface: r, repo: prefix + lRepo, names: names}, lPopulate(m, c.Kind, &bare, univ, prefix, refs)
		}
		return r, lPopulate(m, c.Kind, n, univ, prefix, refs)
	case "http":
		x, err := st.build(c, n.X, univ, prefix, refs)
		if err != nil {
			return nil, err
		}
		opts := fmt.Sprintf("page%d", n.N)
		if n.Max > 0 {
			opts += fmt.Sprintf("+max%d", n.Max)
		}
		if !n.Link {
			opts += "+nolink"
		}
		hop := n.Hop
		st.env.wrapHandler = func(h http.Handler) http.Handler { return st.recorder(hop, univ, h) }
		return st.node("http:"+opts+"(mem)", x)
	case "debug":
		x, err := st.build(c, n.X, univ, prefix, refs)
		if err != nil {
			return nil, err
		}
		return st.node("debug(mem)", x)
	case "select":
		x, err := st.build(c, n.X, univ, prefix, refs)
		if err != nil {
			return nil, err
		}
		if c.Kind != "repos" {
			// the filter is over repository names: it admits the listed repository
			return ocifilter.Select(x, func(string) bool { return true }), nil
		}
		allowed := map[string]bool{}
		for _, e := range n.P {
			if e >= 1 && e <= len(univ) {
				allowed[univ[e-1]] = true
			}
		}
		return ocifilter.Select(x, func(name string) bool { return allowed[name] }), nil
	case "fail":
		x, err := st.build(c, n.X, univ, prefix, refs)
		if err != nil {
			return nil, err
		}
		f := &lFailing{Interface: x, never: n.At < 1 || n.At > len(univ)}
		if !f.never {
			f.from = univ[n.At-1]
		}
		return f, nil
	case "sub":
		under := univ
		if c.Kind == "repos" {
			under = c.Univ
		}
		x, err := st.build(c, n.X, under, lSubPrefix+"/"+prefix, refs)
		if err != nil {
			return nil, err
		}
		r, err := st.node("sub(mem)", x)
		if err == nil && st.env.subPrefix != lSubPrefix {
			err = fmt.Errorf("stacks.go uses sub prefix %q, list.go assumes %q", st.env.subPrefix, lSubPrefix)
		}
		return r, err
	case "unify":
		x, err := st.build(c, n.X, univ, prefix, refs)
		if err != nil {
			return nil, err
		}
		y, err := st.build(c, n.Y, univ, prefix, refs)
		if err != nil {
			return nil, err
		}
		return st.node("unify(mem,mem)", x, y)
	}
	return nil, fmt.Errorf("unknown node type %q", n.T)
}

// lFailing is a registry whose listings fail with ErrDenied when they reach a name (for
// referrers: a digest) at or beyond `from`: a source that delivers some items and then an
// error.  The iterators are lazy: nothing happens until they are run.
type lFailing struct {
	ociregistry.Interface
	from  string
	never bool
}

func lFailSeq[T any](f *lFailing, mk func() ociregistry.Seq[T], name func(T) string) ociregistry.Seq[T] {
	return func(yield func(T, error) bool) {
		mk()(func(x T, err error) bool {
			if err == nil && !f.never && name(x) >= f.from {
				yield(*new(T), fmt.Errorf("listing source fails at %q: %w", name(x), ociregistry.ErrDenied))
				return false
			}
			return yield(x, err)
		})
	}
}

func (f *lFailing) Repositories(ctx context.Context, startAfter string) ociregistry.Seq[string] {
	return lFailSeq(f, func() ociregistry.Seq[string] { return f.Interface.Repositories(ctx, startAfter) }, func(s string) string { return s })
}

func (f *lFailing) Tags(ctx context.Context, repo, startAfter string) ociregistry.Seq[string] {
	return lFailSeq(f, func() ociregistry.Seq[string] { return f.Interface.Tags(ctx, repo, startAfter) }, func(s string) string { return s })
}

func (f *lFailing) Referrers(ctx context.Context, repo string, d ociregistry.Digest, artifactType string) ociregistry.Seq[ociregistry.Descriptor] {
	return lFailSeq(f, func() ociregistry.Seq[ociregistry.Descriptor] {
		return f.Interface.Referrers(ctx, repo, d, artifactType)
	},
		func(d ociregistry.Descriptor) string { return string(d.Digest) })
}

// lPopulate fills one in-memory registry: repositories need content to be listed, tags
// need a manifest, referrers need manifests with a subject.
func lPopulate(m *ocimem.Registry, kind string, n *lNode, univ []string, prefix string, refs []*lManifest) error {
	ctx := context.Background()
	cfgDesc := ociregistry.Descriptor{MediaType: lMtConfig, Digest: digest.FromBytes(lConfig), Size: int64(len(lConfig))}
	pushCfg := func(repo string) error {
		_, err := m.PushBlob(ctx, repo, cfgDesc, bytes.NewReader(lConfig))
		return err
	}
	if kind == "repos" {
		for _, e := range n.S {
			if err := pushCfg(univ[e-1]); err != nil {
				return fmt.Errorf("populate %q: %v", univ[e-1], err)
			}
		}
		return nil
	}
	if n.Absent {
		// some other repository, so that the registry is not empty
		return pushCfg(prefix + "list/other")
	}
	repo := prefix + lRepo
	if err := pushCfg(repo); err != nil {
		return err
	}
	if _, err := m.PushManifest(ctx, repo, "", lSubject.data, lMtImage); err != nil {
		return err
	}
	for _, e := range n.S {
		if kind == "tags" {
			if _, err := m.PushManifest(ctx, repo, univ[e-1], lSubject.data, lMtImage); err != nil {
				return fmt.Errorf("populate tag %q: %v", univ[e-1], err)
			}
		} else {
			// The same bytes (hence the same digest) are a valid image manifest and a valid
			// (empty) index with a subject: two registries may hold them under different types.
			mt := lMtImage
			if n.Alt {
				mt = lMtIndex
			}
			if _, err := m.PushManifest(ctx, repo, "", refs[e-1].data, mt); err != nil {
				return fmt.Errorf("populate referrer %d: %v", e, err)
			}
		}
	}
	return nil
}

// ---------------------------------------------------------------- running a case

type lRunner struct {
	out    *json.Encoder
	cached *lStack
	key    string
	nCases int
	byKind map[string]int
}

func (lr *lRunner) stackFor(c *lCase) (*lStack, error) {
	kb, _ := json.Marshal([]any{c.Kind, c.Node, c.Univ, c.Raw})
	key := string(kb)
	if lr.cached != nil && lr.key == key {
		return lr.cached, nil
	}
	lr.drop()
	st := &lStack{env: &stackEnv{}}
	var refs []*lManifest
	if c.Kind == "refs" {
		refs, _ = lReferrers(len(c.Univ))
	}
	top, err := st.build(c, c.Node, c.topUniv(), "", refs)
	if err != nil {
		st.env.close()
		return nil, err
	}
	st.top = top
	lr.cached, lr.key = st, key
	return st, nil
}

func (lr *lRunner) drop() {
	if lr.cached != nil {
		lr.cached.env.close()
		lr.cached = nil
	}
}

// lPass is one run of a listing value against a consumer that declines at its k-th call.
type lPass struct {
	k       int
	calls   []ev
	after   int
	runaway bool
	// compact form (large universes): maximal runs of consecutive ranks, error calls
	compact bool
	runs    [][2]int
	errs    [][]string
	n       int
	stopped bool
	cut     int
	cancel  func()
}

func (p *lPass) consume(rank func(string) int, hardCap int) func(string, error) bool {
	return func(name string, err error) bool {
		if p.stopped {
			p.after++ // the iterator called again although told to stop / after an error
			return false
		}
		if p.n >= hardCap {
			p.runaway = true
			p.stopped = true
			return false
		}
		p.n++
		if err != nil {
			call := ev{}
			observeErr(call, err)
			delete(call, "ok")
			call["e"] = "err"
			call["x"] = 0
			call["name"] = ""
			if errors.Is(err, context.Canceled) || errors.Is(err, context.DeadlineExceeded) {
				call["is"] = append(call["is"].([]string), "CONTEXT")
			}
			if p.compact {
				p.errs = append(p.errs, call["is"].([]string))
			} else {
				p.calls = append(p.calls, call)
			}
			p.stopped = true
		} else {
			x := rank(name)
			if p.compact {
				if k := len(p.runs); k > 0 && p.runs[k-1][1]+1 == x {
					p.runs[k-1][1] = x
				} else {
					p.runs = append(p.runs, [2]int{x, x})
				}
			} else {
				p.calls = append(p.calls, ev{"e": "item", "x": x, "name": name, "is": []string{}, "code": "", "status": 0})
			}
		}
		if p.n == p.cut && p.cancel != nil {
			p.cancel() // the context is done from now on; the consumer keeps accepting
		}
		if p.n == p.k {
			p.stopped = true
			return false
		}
		// after an error keep accepting: a conforming iterator stops by itself
		return true
	}
}

// listing obtains the listing value ONCE and returns a function that runs it.
func lListing(ctx context.Context, top ociregistry.Interface, kind, start string) func(func(string, error) bool) {
	switch kind {
	case "repos":
		seq := top.Repositories(ctx, start)
		return func(f func(string, error) bool) { seq(f) }
	case "tags":
		seq := top.Tags(ctx, lRepo, start)
		return func(f func(string, error) bool) { seq(f) }
	}
	seq := top.Referrers(ctx, lRepo, lSubject.dig, "")
	return func(f func(string, error) bool) {
		seq(func(d ociregistry.Descriptor, err error) bool { return f(string(d.Digest), err) })
	}
}

// passes runs one listing value once per stop point; the requests seen while the value was
// created belong to the first run.  It returns the panic value, if the code panicked.
func (st *lStack) passes(kind, start string, ks []int, rank func(string) int, hardCap int, compact bool, cut int, deadline bool) (out []ev, panicked any) {
	ctx, cancel := context.WithTimeout(context.Background(), 30*time.Second)
	defer cancel()
	if cut == 0 {
		if deadline {
			ctx, cancel = context.WithDeadline(context.Background(), time.Now().Add(-time.Second))
			defer cancel()
		} else {
			cancel()
		}
	}
	st.take()
	var run func(func(string, error) bool)
	for i, k := range ks {
		p := &lPass{k: k, compact: compact, calls: []ev{}, runs: [][2]int{}, errs: [][]string{}, cut: cut, cancel: cancel}
		panicked = func() (pv any) {
			defer func() { pv = recover() }()
			if i == 0 {
				run = lListing(ctx, st.top, kind, start)
			}
			run(p.consume(rank, hardCap))
			return nil
		}()
		st.env.quiesce()
		e := ev{"k": k, "reqs": st.take(), "after": p.after, "runaway": p.runaway}
		if compact {
			e["runs"], e["errs"], e["ncalls"] = p.runs, p.errs, p.n
		} else {
			e["calls"] = p.calls
		}
		out = append(out, e)
		if panicked != nil {
			break
		}
	}
	return out, panicked
}

func (lr *lRunner) run(c *lCase) error {
	st, err := lr.stackFor(c)
	if err != nil {
		return err
	}
	top := c.topUniv()
	if c.Univ == nil {
		c.Univ = []string{}
	}
	if len(c.Passes) == 0 {
		// the same listing value is run again, completely; random cases a third time
		c.Passes = []int{c.K, 0}
		if c.Src == "rand" {
			c.Passes = append(c.Passes, 2)
		}
	}
	if c.Cut >= 0 {
		c.Passes = []int{c.K} // a listing whose context is done is run once
	}
	c.Passes[0] = c.K
	e := ev{"cut": c.Cut, "deadline": c.Deadline, "op": "list", "src": c.Src, "kind": c.Kind, "k": c.K, "node": c.Node.abstract(), "stack": c.Node.String(),
		"univ": c.Univ, "start": c.Start, "a": listPos(top, c.Start), "usize": len(top), "passes": c.Passes}
	if c.Kind == "refs" {
		e["a"] = 0
	}
	lr.out.Encode(ev{"op": "reset", "case": lr.nCases})
	lr.nCases++
	lr.byKind[c.Kind]++
	ranks := map[string]int{}
	for i, s := range top {
		ranks[s] = i + 1
	}
	rank := func(name string) int {
		if x, ok := ranks[name]; ok {
			return x
		}
		return -1
	}
	// far above what any correct listing needs (a unifier in front of a paged member drains
	// it once per request of the hop above: hops multiply)
	st.cap = 4
	for h := strings.Count(c.Node.String(), "http"); h > 0 && st.cap < 50000; h-- {
		st.cap *= len(c.Univ) + 3
	}
	st.cap = min(st.cap, 50000) + 50
	ps, panicked := st.passes(c.Kind, c.Start, c.Passes, rank, len(c.Univ)+8, false, c.Cut, c.Deadline)
	for k, v := range ps[0] {
		e[k] = v
	}
	more := []ev{}
	if panicked == nil {
		more = ps[1:]
	}
	e["more"] = more
	if panicked != nil {
		e["op"] = "panic"
		e["panic"] = fmt.Sprint(panicked)
		e["inpass"] = len(ps)
		lr.drop() // the stack may be in any state
	}
	return lr.out.Encode(e)
}

// runBig lists large universes (more items than ociserver's internal page bound of 10000)
// through one hop: m tags / repositories t00001..., every (page size, Link) given, from
// several start points, each listing value run several times.  The consumer calls are
// recorded as maximal runs of consecutive ranks.
func (lr *lRunner) runBig(kind string, m int, pages []int, replay *lBigCase) error {
	lr.drop()
	univ := make([]string, m)
	elems := make([]int, m)
	ranks := make(map[string]int, m)
	for i := range univ {
		univ[i] = fmt.Sprintf("t%05d", i+1)
		elems[i] = i + 1
		ranks[univ[i]] = i + 1
	}
	rank := func(name string) int {
		if x, ok := ranks[name]; ok {
			return x
		}
		return -1
	}
	st := &lStack{env: &stackEnv{}}
	defer func() { st.env.close() }()
	memIface, _, err := st.env.build("mem")
	if err != nil {
		return err
	}
	if err := lPopulate(st.env.mems[0], kind, &lNode{T: "mem", S: elems}, univ, "", nil); err != nil {
		return err
	}
	one := func(page int, link bool, start string, ks []int) error {
		opts := fmt.Sprintf("page%d", page)
		if !link {
			opts += "+nolink"
		}
		st.env.wrapHandler = func(h http.Handler) http.Handler { return st.recorder(1, univ, h) }
		top, err := st.node("http:"+opts+"(mem)", memIface)
		if err != nil {
			return err
		}
		st.top = top
		st.cap = m + 50
		node := &lNode{T: "http", Hop: 1, N: page, Link: link, X: &lNode{T: "mem"}}
		lr.out.Encode(ev{"op": "reset", "case": lr.nCases})
		lr.nCases++
		lr.byKind["big:"+kind]++
		ps, panicked := st.passes(kind, start, ks, rank, m+8, true, -1, false)
		e := ev{"op": "biglist", "src": "big", "kind": kind, "m": m, "node": node.abstract(), "stack": node.String(),
			"start": start, "a": listPos(univ, start), "ks": ks, "passes": ps}
		if panicked != nil {
			e["op"] = "panic"
			e["panic"] = fmt.Sprint(panicked)
		}
		return lr.out.Encode(e)
	}
	if replay != nil {
		return one(replay.Node.N, replay.Node.Link, replay.Start, replay.Ks)
	}
	for i, page := range pages {
		for _, link := range []bool{true, false} {
			// from the beginning, and from a point that leaves exactly 10000 / fewer items
			starts := []string{"", univ[m-10001], univ[0] + "+&x"}
			if i%2 == 1 {
				starts = []string{"", univ[m-10000] + "%20"}
			}
			for j, start := range starts {
				ks := []int{0, 0}
				if j == 0 {
					ks = []int{0, 10000, 0}
				}
				if err := one(page, link, start, ks); err != nil {
					return err
				}
			}
		}
	}
	return nil
}

type lBigCase struct {
	Kind  string `json:"kind"`
	M     int    `json:"m"`
	Node  *lNode `json:"node"`
	Start string `json:"start"`
	Ks    []int  `json:"ks"`
}

// ---------------------------------------------------------------- concretising TLC configurations

// Name tables: valid names in ascending byte order with distinct first bytes, so that
// name+suffix sorts strictly between a name and its successor.
var lRepoTable = []string{"a-1", "b/c.d", "e_f", "g/h/i", "j0", "k__l", "m.n/o", "x9"}
var lTagTable = []string{"0.1", "A_b", "B-2", "_x", "latest", "v1.0-rc_2", "w", "z.Z"}

// suffixes that need escaping in a query string
var lSuffixes = []string{"+", "&n=1", "%41", " z", "?last=a", "#f", "=", "%", "/../x", "+&% "}

// strings below every name of the tables (non-empty)
var lBefore = []string{" ", "+", "%", "&", "%2F", "+ +"}

type lCfg struct {
	Kind string `json:"kind"`
	A    int    `json:"a"`
	K    int    `json:"k"`
	Cut  int    `json:"cut"`
	Node *lNode `json:"node"`
}

func (n *lNode) maxElem() int {
	if n == nil {
		return 0
	}
	m := 0
	for _, e := range n.S {
		if e > m {
			m = e
		}
	}
	for _, e := range n.P {
		if e > m {
			m = e
		}
	}
	if n.T == "sub" && n.Lo+n.Cnt > m {
		m = n.Lo + n.Cnt
	}
	if n.T == "fail" && n.At > m {
		m = n.At
	}
	for _, c := range []*lNode{n.X, n.Y} {
		if k := c.maxElem(); k > m {
			m = k
		}
	}
	return m
}

// concretise turns a configuration of OciListMC into a case; salt varies the spelling of
// start points.  usize: universe size (at least what the configuration mentions).
func concretise(cfg *lCfg, salt int) *lCase {
	c := &lCase{Src: "tlc", Kind: cfg.Kind, Node: cfg.Node, K: cfg.K, Cut: cfg.Cut, Deadline: cfg.Cut == 0 && salt%2 == 0}
	if cfg.Kind == "refs" && salt%2 == 0 {
		// second members of unifiers hold their referrers under the other media type
		lAltSeconds(cfg.Node, false)
	}
	n := cfg.Node.maxElem()
	if (cfg.A+1)/2 > n {
		n = (cfg.A + 1) / 2
	}
	if n < 1 {
		n = 1
	}
	sub := cfg.Node.findSub()
	switch cfg.Kind {
	case "repos":
		if sub == nil {
			c.Univ = append([]string{}, lRepoTable[:n]...)
		} else {
			// elements lo+1..lo+cnt carry the prefix; below them a name that is the prefix
			// itself or sorts below it, above them names that share it as a string prefix
			low := []string{"pfx/sub", "pfx/su", "a0"}
			high := []string{"pfx/sub0", "pfx/subs/x", "q"}
			for i := 0; i < n; i++ {
				switch {
				case i < sub.Lo:
					c.Univ = append(c.Univ, low[sub.Lo-1-i])
				case i < sub.Lo+sub.Cnt:
					c.Univ = append(c.Univ, lSubPrefix+"/"+lRepoTable[i-sub.Lo])
				default:
					c.Univ = append(c.Univ, high[i-sub.Lo-sub.Cnt])
				}
			}
		}
	case "tags":
		c.Univ = append([]string{}, lTagTable[:n]...)
	case "refs":
		_, c.Univ = lReferrers(n)
	}
	if !sort.StringsAreSorted(c.Univ) {
		panic(fmt.Sprintf("universe not sorted: %q", c.Univ))
	}
	top := c.topUniv()
	a := cfg.A
	switch {
	case cfg.Kind == "refs" || a <= 0:
		c.Start = ""
	case a%2 == 0 && a/2 <= len(top):
		c.Start = top[a/2-1]
	case a == 1:
		c.Start = lBefore[salt%len(lBefore)]
	case a/2 <= len(top):
		c.Start = top[a/2-1] + lSuffixes[salt%len(lSuffixes)]
	default:
		// beyond the end of the view's universe
		c.Start = "~" + lSuffixes[salt%len(lSuffixes)]
	}
	return c
}

// lAltSeconds marks the in-memory registries in the second member of every unifier.
func lAltSeconds(n *lNode, second bool) {
	if n == nil {
		return
	}
	if n.T == "mem" {
		n.Alt = second
	}
	lAltSeconds(n.X, second)
	lAltSeconds(n.Y, second || n.T == "unify")
}

// ---------------------------------------------------------------- seeded random cases

func lRandName(rnd *rand.Rand, tag bool) string {
	const alnum = "abcdefghijklmnopqrstuvwxyz0123456789"
	word := func(n int) string {
		b := make([]byte, n)
		for i := range b {
			b[i] = alnum[rnd.Intn(len(alnum))]
		}
		return string(b)
	}
	if tag {
		first := "ABZ_abz09"
		rest := "AZaz09._-"
		b := []byte{first[rnd.Intn(len(first))]}
		for i := rnd.Intn(6); i > 0; i-- {
			b = append(b, rest[rnd.Intn(len(rest))])
		}
		return string(b)
	}
	seps := []string{".", "_", "__", "-", "--", "/", "/"}
	s := word(1 + rnd.Intn(3))
	for i := rnd.Intn(4); i > 0; i-- {
		s += seps[rnd.Intn(len(seps))] + word(1+rnd.Intn(2))
	}
	return s
}

func lRandSubset(rnd *rand.Rand, n int, p float64) []int {
	out := []int{}
	for e := 1; e <= n; e++ {
		if rnd.Float64() < p {
			out = append(out, e)
		}
	}
	return out
}

// randCase draws a case: universe of up to maxU names, a random stack of the given kind.
func randCase(rnd *rand.Rand, maxU int) *lCase {
	kinds := []string{"repos", "repos", "tags", "tags", "refs"}
	c := &lCase{Src: "rand", Kind: kinds[rnd.Intn(len(kinds))], Cut: -1}
	n := rnd.Intn(maxU + 1)
	if rnd.Intn(4) == 0 {
		n = rnd.Intn(5)
	}
	withSub := c.Kind == "repos" && rnd.Intn(3) == 0
	lo, cnt := 0, 0
	switch c.Kind {
	case "refs":
		if n > 12 {
			n = 12
		}
		_, c.Univ = lReferrers(n)
	default:
		seen := map[string]bool{}
		c.Raw = c.Kind == "tags" && rnd.Intn(4) == 0
		for len(c.Univ) < n {
			s := lRandName(rnd, c.Kind == "tags")
			if c.Raw && rnd.Intn(2) == 0 {
				// bytes with a meaning in URLs, query strings and Link headers
				const meta = "+&%= #?;,<>\"/"
				i := rnd.Intn(len(s) + 1)
				s = s[:i] + string(meta[rnd.Intn(len(meta))]) + s[i:]
			}
			if withSub {
				// names around the prefix: inside it, equal to it, sharing it as a string
				switch rnd.Intn(6) {
				case 0:
					s = []string{"pfx/sub", "pfx", "pfx/su", "pfx/sub0", "pfx/subs/" + s, "pfx/sub-" + s}[rnd.Intn(6)]
				case 1:
				default:
					s = lSubPrefix + "/" + s
				}
			}
			if !seen[s] {
				seen[s] = true
				c.Univ = append(c.Univ, s)
			}
		}
		sort.Strings(c.Univ)
		if withSub {
			lo = sort.SearchStrings(c.Univ, lSubPrefix+"/")
			for lo+cnt < len(c.Univ) && strings.HasPrefix(c.Univ[lo+cnt], lSubPrefix+"/") {
				cnt++
			}
		}
	}
	pages := []int{-1, 0, 1, 1, 2, 2, 3, 3, 4, 5, 7}
	if n > 0 {
		pages = append(pages, n-1, n, n+1, (n+1)/2, n/3+1)
	}
	httpOver := func(x *lNode) *lNode {
		h := &lNode{T: "http", N: pages[rnd.Intn(len(pages))], Link: rnd.Intn(3) > 0, X: x}
		if rnd.Intn(4) == 0 {
			h.Max = 1 + rnd.Intn(4)
		}
		return h
	}
	hasHTTP := func(x *lNode) bool { return strings.Contains(x.String(), "http") }
	hasUnify := func(x *lNode) bool { return strings.Contains(x.String(), "unify") }
	// gen draws a tree over a universe of `size` names
	var gen func(depth, size int) *lNode
	gen = func(depth, size int) *lNode {
		r := rnd.Intn(10)
		if depth <= 0 || r == 0 {
			m := &lNode{T: "mem", S: lRandSubset(rnd, size, []float64{0.3, 0.7, 1.0}[rnd.Intn(3)])}
			if c.Kind != "repos" && rnd.Intn(8) == 0 {
				m.S, m.Absent = nil, true
			}
			m.Alt = c.Kind == "refs" && rnd.Intn(2) == 0
			if size > 0 && rnd.Intn(5) == 0 {
				// a source that fails part-way, often seen through ocidebug
				f := &lNode{T: "fail", At: 1 + rnd.Intn(size), X: m}
				if rnd.Intn(2) == 0 {
					return &lNode{T: "debug", X: f}
				}
				return f
			}
			return m
		}
		switch {
		case r <= 4:
			return httpOver(gen(depth-1, size))
		case r == 5:
			return &lNode{T: "debug", X: gen(depth-1, size)}
		case r == 6:
			return &lNode{T: "select", P: lRandSubset(rnd, size, []float64{0.5, 0.9, 1.0}[rnd.Intn(3)]), X: gen(depth-1, size)}
		default:
			x, y := gen(depth-1, size), gen(depth-1, size)
			// Not generated: a unifier below a unifier, and for referrers two members with
			// HTTP hops - a unifier and ociclient.Referrers do their requests when they are
			// called, and the unifier calls both members concurrently, so the order of the
			// two members' requests is not determined.
			if hasUnify(x) || hasUnify(y) || c.Kind == "refs" && hasHTTP(x) && hasHTTP(y) {
				return x
			}
			return &lNode{T: "unify", X: x, Y: y}
		}
	}
	c.Node = gen(1+rnd.Intn(3), n)
	if strings.Contains(c.Node.String(), "fail") && rnd.Intn(2) == 0 {
		c.Node = &lNode{T: "debug", X: c.Node}
	}
	if withSub {
		// the Sub sits on the spine; above it only nodes that see the view's names
		c.Node = &lNode{T: "sub", Lo: lo, Cnt: cnt, X: c.Node}
		for i := rnd.Intn(3); i > 0; i-- {
			switch rnd.Intn(3) {
			case 0:
				c.Node = httpOver(c.Node)
			case 1:
				c.Node = &lNode{T: "debug", X: c.Node}
			case 2:
				c.Node = &lNode{T: "select", P: lRandSubset(rnd, cnt, []float64{0.5, 0.9, 1.0}[rnd.Intn(3)]), X: c.Node}
			}
		}
	}
	lFixHops(c.Node, new(int))
	top := c.topUniv()
	switch r := rnd.Intn(10); {
	case c.Kind == "refs" || r == 0:
		c.Start = ""
	case r <= 3 && len(top) > 0:
		c.Start = top[rnd.Intn(len(top))]
	case r <= 6 && len(top) > 0:
		c.Start = top[rnd.Intn(len(top))] + lSuffixes[rnd.Intn(len(lSuffixes))]
	case r == 7:
		c.Start = lBefore[rnd.Intn(len(lBefore))]
	case r == 8:
		c.Start = "~" + lSuffixes[rnd.Intn(len(lSuffixes))]
	default:
		c.Start = lRandName(rnd, c.Kind == "tags") + lSuffixes[rnd.Intn(len(lSuffixes))]
	}
	if rnd.Intn(2) == 0 {
		c.K = 0
	} else {
		c.K = 1 + rnd.Intn(len(top)+2)
	}
	if rnd.Intn(5) == 0 {
		// the context is done after some items (before the listing exists only without a
		// unifier: its members would see the context each in their own way)
		c.Cut = rnd.Intn(len(top) + 1)
		if c.Cut == 0 && strings.Contains(c.Node.String(), "unify") {
			c.Cut = 1
		}
		c.Deadline = c.Cut == 0 && rnd.Intn(2) == 0
		if rnd.Intn(2) == 0 {
			c.K = 0
		}
	}
	return c
}

// lFixHops numbers the HTTP hops in build order (children first).
func lFixHops(n *lNode, next *int) {
	if n == nil {
		return
	}
	lFixHops(n.X, next)
	lFixHops(n.Y, next)
	if n.T == "http" {
		*next++
		n.Hop = *next
	}
}

// bigCase: more tags than the default page size, listed with the default page size.
func bigCase(count, page int, link bool) *lCase {
	c := &lCase{Src: "big", Kind: "tags", K: 0, Passes: []int{0}, Cut: -1}
	s := []int{}
	for i := 0; i < count; i++ {
		c.Univ = append(c.Univ, fmt.Sprintf("t%05d", i))
		s = append(s, i+1)
	}
	c.Node = &lNode{T: "http", Hop: 1, N: page, Link: link, X: &lNode{T: "mem", S: s}}
	return c
}

// ---------------------------------------------------------------- command

func listCmd(args []string) error {
	fs := flag.NewFlagSet("list", flag.ExitOnError)
	seed := fs.Int64("seed", 1, "seed for random cases and for the spelling of start points")
	n := fs.Int("n", 0, "number of random cases")
	maxU := fs.Int("maxu", 24, "largest universe of a random case")
	cfgs := fs.String("cfgs", "", "file with one configuration exported by OciListMC per line")
	big := fs.Int("big", 0, "also list this many tags with the default page size (0: no)")
	huge := fs.Bool("huge", false, "also list universes of more than 10000 items (compact events)")
	replay := fs.String("replay", "", "re-execute the cases of a trace / replay file")
	out := fs.String("out", "", "trace file")
	fs.Parse(args)
	f, err := os.Create(*out)
	if err != nil {
		return err
	}
	defer f.Close()
	bw := bufio.NewWriterSize(f, 1<<20)
	defer bw.Flush()
	lr := &lRunner{out: json.NewEncoder(bw), byKind: map[string]int{}}
	lr.out.SetEscapeHTML(false)
	defer lr.drop()
	lr.out.Encode(ev{"op": "header", "defaultN": 1000})
	rnd := rand.New(rand.NewSource(*seed))
	readLines := func(path string, each func([]byte) error) error {
		rf, err := os.Open(path)
		if err != nil {
			return err
		}
		defer rf.Close()
		sc := bufio.NewScanner(rf)
		sc.Buffer(make([]byte, 1<<20), 1<<28)
		for sc.Scan() {
			if len(bytes.TrimSpace(sc.Bytes())) == 0 {
				continue
			}
			if err := each(sc.Bytes()); err != nil {
				return err
			}
		}
		return sc.Err()
	}
	if *replay != "" {
		err := readLines(*replay, func(line []byte) error {
			var head struct {
				Op  string `json:"op"`
				Src string `json:"src"`
			}
			if err := json.Unmarshal(line, &head); err != nil {
				return err
			}
			if head.Op == "biglist" || head.Op == "panic" && head.Src == "big" {
				var b lBigCase
				if err := json.Unmarshal(line, &b); err != nil {
					return err
				}
				return lr.runBig(b.Kind, b.M, nil, &b)
			}
			if head.Op != "list" && head.Op != "panic" {
				return nil
			}
			var c struct{ lCase }
			c.Cut = -1
			if err := json.Unmarshal(line, &c); err != nil {
				return err
			}
			c.Src = "replay"
			return lr.run(&c.lCase)
		})
		if err != nil {
			return err
		}
	}
	if *cfgs != "" {
		i := 0
		err := readLines(*cfgs, func(line []byte) error {
			cfg := lCfg{Cut: -1}
			if err := json.Unmarshal(line, &cfg); err != nil {
				return fmt.Errorf("%v in %s", err, line)
			}
			i++
			return lr.run(concretise(&cfg, int(*seed)+i))
		})
		if err != nil {
			return err
		}
	}
	for i := 0; i < *n; i++ {
		c := randCase(rnd, *maxU)
		reps := 1 + rnd.Intn(3)
		for j := 0; j < reps; j++ {
			// the same stack listed from several start points / stop points
			if j > 0 {
				top := c.topUniv()
				c = &lCase{Src: c.Src, Kind: c.Kind, Node: c.Node, Univ: c.Univ, Start: c.Start, Raw: c.Raw, K: rnd.Intn(len(top) + 3), Cut: -1}
				if c.Kind != "refs" && len(top) > 0 && rnd.Intn(2) == 0 {
					c.Start = top[rnd.Intn(len(top))]
					if rnd.Intn(2) == 0 {
						c.Start += lSuffixes[rnd.Intn(len(lSuffixes))]
					}
				}
			}
			if err := lr.run(c); err != nil {
				return err
			}
		}
	}
	if *big > 0 {
		for _, c := range []*lCase{bigCase(*big, 0, true), bigCase(*big, -1, false)} {
			if err := lr.run(c); err != nil {
				return err
			}
		}
	}
	if *huge {
		// ociserver bounds a page at 10000 items when no usable n is given
		if err := lr.runBig("tags", 10001, []int{10000, 10001, 20000}, nil); err != nil {
			return err
		}
		if err := lr.runBig("repos", 10003, []int{10001, 0}, nil); err != nil {
			return err
		}
	}
	sum, _ := json.Marshal(ev{"cases": lr.nCases, "kinds": lr.byKind})
	fmt.Println(string(sum))
	return nil
}
