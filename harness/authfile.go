package main

// Command `authfile` (property C19, spec/OciAuthFile.tla): renders abstract Docker-style
// configurations to config files, loads each one several times with ociauth.LoadWithEnv
// (a fresh decode every time, so that Go's map iteration order varies), queries hosts in
// several orders and records every result.  No judging here: spec/OciAuthFileTrace.tla
// decides.  Strings travel as arrays of byte values (the specification's representation).

import (
	"bufio"
	"encoding/base64"
	"encoding/json"
	"errors"
	"flag"
	"fmt"
	"math/rand"
	"os"
	"path/filepath"
	"strings"

	"cuelabs.dev/go/oci/ociregistry/ociauth"
)

func init() { commands["authfile"] = authfileCmd }

// afStr is a string logged as an array of byte values.
type afStr string

func (s afStr) MarshalJSON() ([]byte, error) {
	var b strings.Builder
	b.WriteByte('[')
	for i := 0; i < len(s); i++ {
		if i > 0 {
			b.WriteByte(',')
		}
		fmt.Fprintf(&b, "%d", s[i])
	}
	b.WriteByte(']')
	return []byte(b.String()), nil
}

func (s *afStr) UnmarshalJSON(data []byte) error {
	var xs []int
	if err := json.Unmarshal(data, &xs); err != nil {
		return err
	}
	bs := make([]byte, len(xs))
	for i, x := range xs {
		bs[i] = byte(x)
	}
	*s = afStr(bs)
	return nil
}

type afEntry struct {
	Key           afStr `json:"key"`
	Username      afStr `json:"username"`
	Password      afStr `json:"password"`
	Auth          afStr `json:"auth"`
	IdentityToken afStr `json:"identitytoken"`
	RegistryToken afStr `json:"registrytoken"`
	Email         afStr `json:"email"` // a field that carries no credentials (the code under test does not know it)
}

type afHelperRef struct {
	Host   afStr  `json:"host"`
	Helper string `json:"helper"`
}

// afBeh: what running a helper does: kind is creds | token | notfound | nobinary | error.
type afBeh struct {
	Kind   string `json:"kind"`
	User   afStr  `json:"user"`
	Secret afStr  `json:"secret"`
}

type afCfg struct {
	Auths       []afEntry        `json:"auths"`
	CredsStore  string           `json:"credsStore"`
	CredHelpers []afHelperRef    `json:"credHelpers"`
	Helpers     map[string]afBeh `json:"helpers"`
}

// afCase is one configuration to probe (a TLC-exported case, a random one, or a replayed one).
type afCase struct {
	Cfg     afCfg   `json:"cfg"`
	Hosts   []afStr `json:"hosts"`
	Loc     string  `json:"loc"`     // docker | home | xdg: which of the documented locations holds the file
	Mode    string  `json:"mode"`    // inject: scripted HelperRunner; exec: real docker-credential-* programs
	Decodes int     `json:"decodes"` // fresh loads
}

type afEv = map[string]any

// render produces the text of the config file.
func (c *afCfg) render() ([]byte, error) {
	auths := map[string]any{}
	for _, a := range c.Auths {
		m := map[string]string{}
		put := func(k string, v afStr) {
			if v != "" {
				m[k] = string(v)
			}
		}
		put("username", a.Username)
		put("password", a.Password)
		put("auth", a.Auth)
		put("identitytoken", a.IdentityToken)
		put("registrytoken", a.RegistryToken)
		put("email", a.Email)
		if _, dup := auths[string(a.Key)]; dup {
			return nil, fmt.Errorf("duplicate auths key %q", a.Key)
		}
		auths[string(a.Key)] = m
	}
	doc := map[string]any{"auths": auths}
	if c.CredsStore != "" {
		doc["credsStore"] = c.CredsStore
	}
	if len(c.CredHelpers) > 0 {
		m := map[string]string{}
		for _, h := range c.CredHelpers {
			if _, dup := m[string(h.Host)]; dup {
				return nil, fmt.Errorf("duplicate credHelpers key %q", h.Host)
			}
			m[string(h.Host)] = h.Helper
		}
		doc["credHelpers"] = m
	}
	return json.MarshalIndent(doc, "", " ")
}

var afErrHelper = errors.New("scripted helper failure")

// injected returns the scripted HelperRunner for the configuration.
func (c *afCfg) injected() ociauth.HelperRunner {
	return func(name, url string) (ociauth.ConfigEntry, error) {
		b, ok := c.Helpers[name]
		if !ok {
			return ociauth.ConfigEntry{}, fmt.Errorf("helper %q has no scripted behaviour", name)
		}
		switch b.Kind {
		case "creds":
			return ociauth.ConfigEntry{Username: string(b.User) + "@" + url, Password: string(b.Secret)}, nil
		case "token":
			return ociauth.ConfigEntry{RefreshToken: string(b.Secret)}, nil
		case "notfound", "emptyobj", "urlonly":
			return ociauth.ConfigEntry{}, nil
		case "extra":
			return ociauth.ConfigEntry{Username: string(b.User) + "@" + url, Password: string(b.Secret)}, nil
		case "useronly":
			return ociauth.ConfigEntry{Username: string(b.User) + "@" + url}, nil
		case "secretonly":
			return ociauth.ConfigEntry{Password: string(b.Secret)}, nil
		case "mixed": // what the helper knows depends on the host asked about
			switch afHostClass(url) {
			case 1:
				return ociauth.ConfigEntry{Username: string(b.User) + "@" + url, Password: string(b.Secret)}, nil
			case 2:
				return ociauth.ConfigEntry{Username: string(b.User) + "@" + url}, nil
			}
			return ociauth.ConfigEntry{}, nil
		case "nobinary":
			return ociauth.ConfigEntry{}, fmt.Errorf("%w: docker-credential-%s", ociauth.ErrHelperNotFound, name)
		}
		return ociauth.ConfigEntry{}, afErrHelper
	}
}

func afHostClass(url string) int {
	if url == "" {
		return 0
	}
	return int(url[len(url)-1]) % 3
}

// writeHelpers installs docker-credential-<name> programs that behave as scripted.
func (c *afCfg) writeHelpers(dir string) error {
	for name, b := range c.Helpers {
		var body string
		full := fmt.Sprintf("printf '{\"Username\":\"%%s@%%s\",\"Secret\":\"%%s\"}' '%s' \"$url\" '%s'\n", b.User, b.Secret)
		uonly := fmt.Sprintf("printf '{\"Username\":\"%%s@%%s\"}' '%s' \"$url\"\n", b.User)
		switch b.Kind {
		case "creds":
			body = full
		case "extra":
			body = fmt.Sprintf("printf '{\"ServerURL\":\"%%s\",\"Extra\":{\"a\":[1]},\"Username\":\"%%s@%%s\",\"Secret\":\"%%s\",\"secret2\":\"x\"}' \"$url\" '%s' \"$url\" '%s'\n", b.User, b.Secret)
		case "useronly":
			body = uonly
		case "secretonly":
			body = fmt.Sprintf("printf '{\"Secret\":\"%%s\"}' '%s'\n", b.Secret)
		case "emptyobj":
			body = "printf '{}'\n"
		case "urlonly":
			body = "printf '{\"ServerURL\":\"%s\"}' \"$url\"\n"
		case "mixed":
			body = "c=0\nif [ -n \"$url\" ]; then c=$(( $(printf '%d' \"'${url#\"${url%?}\"}\") % 3 )); fi\n" +
				"case $c in\n1) " + full + ";;\n2) " + uonly + ";;\n*) printf '{}'\n;;\nesac\n"
		case "token":
			body = fmt.Sprintf("printf '{\"Username\":\"<token>\",\"Secret\":\"%%s\"}' '%s'\n", b.Secret)
		case "notfound":
			body = "echo 'credentials not found in native keychain'\nexit 1\n"
		case "nobinary":
			continue
		default:
			body = "echo 'the keychain is locked'\nexit 1\n"
		}
		// every program first reads the server URL and notes that it was run
		body = "read -r url || true\nprintf '%s\\t%s\\n' '" + name + "' \"$url\" >> \"$AF_LOG\"\n" + body
		if err := os.WriteFile(filepath.Join(dir, "docker-credential-"+name), []byte("#!/bin/sh\n"+body), 0o755); err != nil {
			return err
		}
	}
	return nil
}

type afRunner struct {
	out  *json.Encoder
	base string
	n    int
}

func (r *afRunner) emit(e afEv) { r.out.Encode(e) }

// runCase probes one configuration.
func (r *afRunner) runCase(id int, cs afCase) error {
	r.n++
	text, err := cs.Cfg.render()
	if err != nil {
		return err
	}
	dir, err := os.MkdirTemp(r.base, "cfg")
	if err != nil {
		return err
	}
	defer os.RemoveAll(dir)
	var file string
	var env []string
	switch cs.Loc {
	case "home":
		file = filepath.Join(dir, ".docker", "config.json")
		env = []string{"HOME=" + dir}
	case "xdg":
		file = filepath.Join(dir, "containers", "auth.json")
		env = []string{"XDG_RUNTIME_DIR=" + dir}
	default:
		cs.Loc = "docker"
		file = filepath.Join(dir, "config.json")
		env = []string{"DOCKER_CONFIG=" + dir}
	}
	if err := os.MkdirAll(filepath.Dir(file), 0o755); err != nil {
		return err
	}
	if err := os.WriteFile(file, text, 0o644); err != nil {
		return err
	}
	var base ociauth.HelperRunner
	logFile := "" // exec mode: the helper programs note their invocations here
	if cs.Mode == "exec" {
		bin := filepath.Join(dir, "bin")
		if err := os.MkdirAll(bin, 0o755); err != nil {
			return err
		}
		if err := cs.Cfg.writeHelpers(bin); err != nil {
			return err
		}
		// exec.Command resolves the program with the process's PATH
		old := os.Getenv("PATH")
		os.Setenv("PATH", bin+string(os.PathListSeparator)+old)
		defer os.Setenv("PATH", old)
		logFile = filepath.Join(dir, "helper.log")
		env = append(env, "PATH="+old, "AF_LOG="+logFile)
		base = ociauth.ExecHelperWithEnv(env)
	} else {
		cs.Mode = "inject"
		base = cs.Cfg.injected()
	}
	if cs.Decodes <= 0 {
		cs.Decodes = 20
	}
	hosts := cs.Hosts
	if hosts == nil {
		hosts = []afStr{}
	}
	hostS := make([]string, len(hosts))
	for i, h := range hosts {
		hostS[i] = string(h)
	}
	r.emit(afEv{"op": "reset", "id": id, "cfg": cs.Cfg, "hosts": hosts, "hostsS": hostS, "loc": cs.Loc, "mode": cs.Mode,
		"decodes": cs.Decodes, "text": string(text)})

	// the runner handed to the real code records what it was asked and what it answered
	type call struct {
		Helper string `json:"helper"`
		URL    afStr  `json:"url"`
	}
	var calls []call
	var lastRunnerErr error
	runner := func(name, url string) (ociauth.ConfigEntry, error) {
		calls = append(calls, call{name, afStr(url)})
		e, err := base(name, url)
		lastRunnerErr = err
		return e, err
	}
	for run := 0; run < cs.Decodes; run++ {
		var cf *ociauth.ConfigFile
		var lerr error
		// exec mode, every other load: no runner is passed, LoadWithEnv makes its default one
		// (ExecHelperWithEnv(env)); what was run is then known from the programs' own notes only
		useRunner, runnerName := runner, "wrapped"
		if cs.Mode == "exec" && run%2 == 1 {
			useRunner, runnerName = nil, "default"
		}
		if p := afCatch(func() { cf, lerr = ociauth.LoadWithEnv(useRunner, env) }); p != nil {
			r.emit(afEv{"op": "panic", "where": "LoadWithEnv", "run": run, "panic": fmt.Sprint(p)})
			continue
		}
		le := afEv{"op": "load", "run": run, "ok": lerr == nil, "msg": ""}
		if lerr != nil {
			le["msg"] = strings.ReplaceAll(lerr.Error(), dir, "$DIR")
		}
		r.emit(le)
		if lerr != nil {
			continue
		}
		// query order of this run: a rotation, reversed every other run, and the first host again
		n := len(hosts)
		order := make([]int, 0, n+1)
		for i := 0; i < n; i++ {
			j := (i + run) % n
			if run%2 == 1 {
				j = (n - 1 - i + run) % n
			}
			order = append(order, j)
		}
		if n > 0 {
			order = append(order, order[0])
		}
		if cs.Mode == "exec" { // and once more backwards through the same ConfigFile
			for i := len(order) - 2; i >= 0; i-- {
				order = append(order, order[i])
			}
		}
		for _, j := range order {
			h := hosts[j]
			calls = []call{}
			lastRunnerErr = nil
			var entry ociauth.ConfigEntry
			var err error
			if p := afCatch(func() { entry, err = cf.EntryForRegistry(string(h)) }); p != nil {
				r.emit(afEv{"op": "panic", "where": "EntryForRegistry", "run": run, "host": h, "panic": fmt.Sprint(p)})
				continue
			}
			ran := []call{} // exec mode: the programs that noted a run during this lookup
			if logFile != "" {
				data, _ := os.ReadFile(logFile)
				os.Remove(logFile)
				for _, ln := range strings.Split(string(data), "\n") {
					if nm, u, ok := strings.Cut(ln, "\t"); ok {
						ran = append(ran, call{nm, afStr(u)})
					}
				}
			}
			class, msg := "none", ""
			if err != nil {
				msg = err.Error()
				switch {
				case errors.Is(err, ociauth.ErrHelperNotFound):
					class = "nobinary"
				case runnerName == "wrapped" && lastRunnerErr != nil && err == lastRunnerErr:
					class = "helper" // the helper's own error, handed through
				case runnerName == "default" && len(ran) > 0:
					class = "helper" // an error after a helper program ran
				default:
					class = "table"
				}
			}
			if runnerName == "default" {
				calls = ran
			}
			r.emit(afEv{"op": "lookup", "run": run, "runner": runnerName, "ran": ran, "host": h, "hostS": string(h), "ok": err == nil, "class": class, "msg": msg,
				"refresh": afStr(entry.RefreshToken), "access": afStr(entry.AccessToken),
				"user": afStr(entry.Username), "pass": afStr(entry.Password), "calls": calls})
		}
	}
	return nil
}

func afCatch(f func()) (p any) {
	defer func() { p = recover() }()
	f()
	return nil
}

func authfileCmd(args []string) error {
	fs := flag.NewFlagSet("authfile", flag.ExitOnError)
	seed := fs.Int64("seed", 1, "seed for random configurations")
	n := fs.Int("n", 0, "number of random configurations")
	out := fs.String("out", "", "trace file")
	cases := fs.String("cases", "", "file with one JSON case per line (TLC export: cfg, hosts)")
	replay := fs.String("replay", "", "replay file: re-run the configurations of its reset events")
	decodes := fs.Int("decodes", 20, "fresh loads per configuration")
	mode := fs.String("mode", "inject", "inject (scripted HelperRunner) or exec (docker-credential-* programs run by ExecHelperWithEnv)")
	dir := fs.String("dir", "", "directory for the rendered config files")
	fs.Parse(args)
	f, err := os.Create(*out)
	if err != nil {
		return err
	}
	defer f.Close()
	bw := bufio.NewWriterSize(f, 1<<20)
	defer bw.Flush()
	enc := json.NewEncoder(bw)
	enc.SetEscapeHTML(false)
	base := *dir
	if base == "" {
		base = filepath.Dir(*out)
	}
	if base, err = filepath.Abs(base); err != nil {
		return err
	}
	tmp, err := os.MkdirTemp(base, "authfile")
	if err != nil {
		return err
	}
	defer os.RemoveAll(tmp)
	r := &afRunner{out: enc, base: tmp}
	enc.Encode(afEv{"op": "header", "family": "OciAuthFile", "seed": *seed, "decodes": *decodes, "mode": *mode})
	id := 0
	locs := []string{"docker", "home", "xdg"}
	readLines := func(path string, each func([]byte) error) error {
		sf, err := os.Open(path)
		if err != nil {
			return err
		}
		defer sf.Close()
		sc := bufio.NewScanner(sf)
		sc.Buffer(make([]byte, 1<<20), 1<<26)
		for sc.Scan() {
			if err := each(sc.Bytes()); err != nil {
				return err
			}
		}
		return sc.Err()
	}
	if *replay != "" {
		err := readLines(*replay, func(line []byte) error {
			var op struct {
				Op string `json:"op"`
			}
			if err := json.Unmarshal(line, &op); err != nil {
				return fmt.Errorf("replay: %v", err)
			}
			if op.Op != "reset" {
				return nil
			}
			var cs afCase
			if err := json.Unmarshal(line, &cs); err != nil {
				return fmt.Errorf("replay: %v", err)
			}
			if *decodes > cs.Decodes {
				cs.Decodes = *decodes
			}
			id++
			return r.runCase(id, cs)
		})
		if err != nil {
			return err
		}
	}
	if *cases != "" {
		err := readLines(*cases, func(line []byte) error {
			var cs afCase
			if err := json.Unmarshal(line, &cs); err != nil {
				return fmt.Errorf("case: %v", err)
			}
			cs.Loc = locs[id%len(locs)]
			cs.Mode = *mode
			cs.Decodes = *decodes
			id++
			return r.runCase(id, cs)
		})
		if err != nil {
			return err
		}
	}
	rnd := rand.New(rand.NewSource(*seed))
	for i := 0; i < *n; i++ {
		cs := afRandCase(rnd)
		cs.Loc = locs[rnd.Intn(len(locs))]
		cs.Mode = *mode
		cs.Decodes = *decodes
		id++
		if err := r.runCase(id, cs); err != nil {
			return err
		}
	}
	fmt.Printf("{\"configs\":%d}\n", r.n)
	return nil
}

// ------------------------------------------------------------- random configurations

var afHostPool = []string{"h1", "h2", "reg.example.com", "localhost:5000", "h1:443", "H1", "a.b", "10.0.0.1"}

// afKeyForms: ways of writing an auths key for a host (what each one normalises to is the
// specification's business).
var afKeyForms = []func(h string) string{
	func(h string) string { return h },
	func(h string) string { return h },
	func(h string) string { return "http://" + h },
	func(h string) string { return "https://" + h },
	func(h string) string { return "http://" + h + "/v1/" },
	func(h string) string { return "https://" + h + "/v2/x" },
	func(h string) string { return "https://" + h + "/" },
	func(h string) string { return h + "//x" },
	func(h string) string { return h + "//" },
	func(h string) string { return h + "/x" },
	func(h string) string { return h + "/" },
	func(h string) string { return "//" + h },
	func(h string) string { return "http:/" + h },
	func(h string) string { return "http:" + h + "//y" },
	func(h string) string { return "HTTP://" + h },
	func(h string) string { return "ftp://" + h + "/x" },
	func(h string) string { return "https://http://" + h },
	func(h string) string { return "http://https://" + h },
	func(h string) string { return "https:///" + h },
	func(h string) string { return "http://" + h + "//" + h },
	func(h string) string { return "http://" },
	func(h string) string { return "" },
	func(h string) string { return " " + h + "//" },
}

func afRandBytes(rnd *rand.Rand, n int, alphabet string) string {
	b := make([]byte, n)
	for i := range b {
		b[i] = alphabet[rnd.Intn(len(alphabet))]
	}
	return string(b)
}

const afAscii = "abcXYZ019:/@ -_=+\x00\x01\x7f\"\\<&'\n"
const afBin = "ab:z\x00\x00\xff\xfe\x80:\n/"

// afRandAuth: an auth field: mostly the base64 text of user:password, sometimes an odd one.
func afRandAuth(rnd *rand.Rand) string {
	user := afRandBytes(rnd, rnd.Intn(4), "abU\x00@/\xc3")
	pass := afRandBytes(rnd, rnd.Intn(6), afBin)
	var raw string
	switch rnd.Intn(10) {
	case 0:
		raw = user // no colon (unless the user holds none... it cannot)
	case 1:
		raw = ":" + pass // empty user
	case 2:
		raw = user + ":" + "\x00" + pass + "\x00\x00"
	default:
		raw = user + ":" + pass
	}
	enc := base64.StdEncoding.EncodeToString([]byte(raw))
	switch rnd.Intn(14) {
	case 0: // a line break inside
		i := rnd.Intn(len(enc) + 1)
		return enc[:i] + "\n" + enc[i:]
	case 1: // padding removed
		return strings.TrimRight(enc, "=")
	case 2: // the other alphabet
		return base64.URLEncoding.EncodeToString([]byte(raw + "\xfb\xff"))
	case 3: // non-zero trailing bits
		if i := strings.IndexByte(enc, '='); i > 0 {
			const alpha = "ABCDEFGHIJKLMNOPQRSTUVWXYZabcdefghijklmnopqrstuvwxyz0123456789+/"
			k := strings.IndexByte(alpha, enc[i-1])
			return enc[:i-1] + string(alpha[(k+1)%64]) + enc[i:]
		}
		return enc
	case 4:
		return []string{"!!!", "=", "====", "A", "AA", "AAA", "\n", "dTpw dTpw", "dTpw=", "dT=w", "dTpw====", "dTpwdQ==dTpw", " "}[rnd.Intn(13)]
	case 5: // trailing garbage
		return enc + "\r\n"
	}
	return enc
}

func afRandCase(rnd *rand.Rand) afCase {
	nh := 1 + rnd.Intn(3)
	pool := make([]string, 0, nh)
	for len(pool) < nh {
		pool = append(pool, afHostPool[rnd.Intn(len(afHostPool))])
	}
	var c afCfg
	c.Auths = []afEntry{}
	c.CredHelpers = []afHelperRef{}
	c.Helpers = map[string]afBeh{}
	seen := map[string]bool{}
	nk := rnd.Intn(7)
	for i := 0; i < nk; i++ {
		h := pool[0]
		if rnd.Intn(3) > 0 { // favour one host, so that its keys collide
			h = pool[rnd.Intn(len(pool))]
		}
		k := afKeyForms[rnd.Intn(len(afKeyForms))](h)
		if seen[k] {
			continue
		}
		seen[k] = true
		e := afEntry{Key: afStr(k)}
		tag := fmt.Sprint(i)
		switch rnd.Intn(15) {
		case 12, 13: // {}: the placeholder docker leaves behind next to a credsStore
		case 14:
			e.Email = afStr("e" + tag + "@x")
		case 0, 1, 2:
			e.Username, e.Password = afStr("u"+tag), afStr("p"+tag)
		case 3, 4, 5:
			e.Auth = afStr(afRandAuth(rnd))
		case 6:
			e.IdentityToken = afStr("t" + tag)
		case 7:
			e.IdentityToken, e.Username = afStr("t"+tag), afStr("u"+tag)
		case 8:
			e.IdentityToken, e.Auth = afStr("t"+tag), afStr(afRandAuth(rnd))
		case 9:
			e.RegistryToken = afStr("r" + tag)
		case 10:
			e.Auth, e.Username, e.Password = afStr(afRandAuth(rnd)), afStr("u"+tag), afStr("p"+tag)
		case 11:
			e.Username = afStr(afRandBytes(rnd, rnd.Intn(4), afAscii))
			e.Password = afStr(afRandBytes(rnd, rnd.Intn(4), afAscii))
			e.RegistryToken = afStr(afRandBytes(rnd, rnd.Intn(3), afAscii))
		}
		c.Auths = append(c.Auths, e)
	}
	names := []string{"A", "B", "osxkeychain"}
	kinds := []string{"creds", "token", "notfound", "nobinary", "error", "useronly", "secretonly", "emptyobj", "urlonly", "extra", "mixed"}
	for _, nm := range names {
		c.Helpers[nm] = afBeh{Kind: kinds[rnd.Intn(len(kinds))], User: afStr(nm + "u" + afRandBytes(rnd, rnd.Intn(2), afAscii)), Secret: afStr(nm + "s" + afRandBytes(rnd, rnd.Intn(3), afAscii))}
	}
	if rnd.Intn(2) == 0 {
		c.CredsStore = names[rnd.Intn(len(names))]
	}
	hseen := map[string]bool{}
	for i := rnd.Intn(3); i > 0; i-- {
		h := pool[rnd.Intn(len(pool))]
		if rnd.Intn(5) == 0 {
			h = "https://" + h // helpers are looked up by the exact host text
		}
		if hseen[h] {
			continue
		}
		hseen[h] = true
		nm := names[rnd.Intn(len(names))]
		if rnd.Intn(5) == 0 {
			nm = ""
		}
		c.CredHelpers = append(c.CredHelpers, afHelperRef{Host: afStr(h), Helper: nm})
	}
	// hosts asked about: the pool, every key as written, and some that only odd keys lead to
	var hosts []afStr
	hs := map[string]bool{}
	add := func(h string) {
		if !hs[h] {
			hs[h] = true
			hosts = append(hosts, afStr(h))
		}
	}
	for _, h := range pool {
		add(h)
	}
	for _, a := range c.Auths {
		if rnd.Intn(2) == 0 {
			add(string(a.Key))
		}
	}
	for _, h := range []string{"", "http:", "https:", "ftp:", "HTTP:", "nowhere.example"} {
		if rnd.Intn(3) == 0 {
			add(h)
		}
	}
	rnd.Shuffle(len(hosts), func(i, j int) { hosts[i], hosts[j] = hosts[j], hosts[i] })
	return afCase{Cfg: c, Hosts: hosts}
}
