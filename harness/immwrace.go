package main

// immwrace: two callers push a manifest through ocifilter.Immutable at the same time.  The interleaving
// of the calls the wrapper makes on the registry behind it is dictated by a schedule exported by TLC from
// spec/OciImmwConc.tla; a gate in front of the in-memory registry lets exactly one of those calls run at a
// time.  Every gated call is recorded as a direct call on the registry (validated by RegTrace as a step
// of OciRegistry) marked "via": "immw", every return of a caller as a "wret" event.

import (
	"bufio"
	"context"
	"encoding/json"
	"flag"
	"fmt"
	"os"
	"time"

	"cuelabs.dev/go/oci/ociregistry"
	"cuelabs.dev/go/oci/ociregistry/ocifilter"
	"cuelabs.dev/go/oci/ociregistry/ocimem"
)

func init() { commands["immwrace"] = immwRaceCmd }

type immwScen struct {
	Pre []Op `json:"pre"`
	Arg map[string]struct {
		R  string `json:"r"`
		T  string `json:"t"`
		C  string `json:"c"`
		MT string `json:"mt"`
	} `json:"arg"`
	Sched []string          `json:"sched"`
	Out   map[string]string `json:"out"`
}

type procKey struct{}

// raceGate serialises the calls of the callers on the registry behind the wrapper.
type raceGate struct {
	ociregistry.Interface
	w      *world
	arrive map[string]chan struct{} // caller p is at a call on the registry
	goon   map[string]chan struct{} // scheduler lets it run
	done   map[string]chan struct{} // the call has completed
}

func (g *raceGate) enter(ctx context.Context) (string, bool) {
	p, ok := ctx.Value(procKey{}).(string)
	if !ok {
		return "", false
	}
	g.arrive[p] <- struct{}{}
	<-g.goon[p]
	return p, true
}

func (g *raceGate) leave(p string, e ev) {
	e["via"] = "immw"
	e["p"] = p
	g.w.direct = true
	g.w.emit(e)
	g.w.snap(context.Background())
	g.done[p] <- struct{}{}
}

func (g *raceGate) ResolveTag(ctx context.Context, repo, tag string) (ociregistry.Descriptor, error) {
	p, ok := g.enter(ctx)
	if !ok {
		return g.Interface.ResolveTag(ctx, repo, tag)
	}
	d, err := g.Interface.ResolveTag(ctx, repo, tag)
	e := opEvent(Op{Op: "ResolveTag", R: repo, T: tag})
	observeErr(e, err)
	if err == nil {
		g.w.descFields(e, d)
	}
	g.leave(p, e)
	return d, err
}

func (g *raceGate) PushManifest(ctx context.Context, repo, tag string, data []byte, mt string) (ociregistry.Descriptor, error) {
	p, ok := g.enter(ctx)
	if !ok {
		return g.Interface.PushManifest(ctx, repo, tag, data, mt)
	}
	d, err := g.Interface.PushManifest(ctx, repo, tag, data, mt)
	t := tag
	if t == "" {
		t = "-"
	}
	e := opEvent(Op{Op: "PushManifest", R: repo, T: t, C: g.w.cat.cidOfBytes(data), MT: mtAbstract(mt)})
	observeErr(e, err)
	if err == nil {
		g.w.descFields(e, d)
	}
	g.leave(p, e)
	return d, err
}

func (g *raceGate) DeleteManifest(ctx context.Context, repo string, d ociregistry.Digest) error {
	p, ok := g.enter(ctx)
	if !ok {
		return g.Interface.DeleteManifest(ctx, repo, d)
	}
	err := g.Interface.DeleteManifest(ctx, repo, d)
	e := opEvent(Op{Op: "DeleteManifest", R: repo, C: g.w.cat.cidOfDigest(d)})
	observeErr(e, err)
	g.leave(p, e)
	return err
}

func (g *raceGate) DeleteBlob(ctx context.Context, repo string, d ociregistry.Digest) error {
	p, ok := g.enter(ctx)
	if !ok {
		return g.Interface.DeleteBlob(ctx, repo, d)
	}
	err := g.Interface.DeleteBlob(ctx, repo, d)
	e := opEvent(Op{Op: "DeleteBlob", R: repo, C: g.w.cat.cidOfDigest(d)})
	observeErr(e, err)
	g.leave(p, e)
	return err
}

func (g *raceGate) DeleteTag(ctx context.Context, repo, tag string) error {
	p, ok := g.enter(ctx)
	if !ok {
		return g.Interface.DeleteTag(ctx, repo, tag)
	}
	err := g.Interface.DeleteTag(ctx, repo, tag)
	e := opEvent(Op{Op: "DeleteTag", R: repo, T: tag})
	observeErr(e, err)
	g.leave(p, e)
	return err
}

func immwRaceCmd(args []string) error {
	fs := flag.NewFlagSet("immwrace", flag.ExitOnError)
	scen := fs.String("scen", "", "schedules exported by TLC (OciImmwConc), one JSON object per line")
	outp := fs.String("out", "", "trace file")
	reps := fs.Int("reps", 1, "repetitions of each schedule")
	fs.Parse(args)
	of, err := os.Create(*outp)
	if err != nil {
		return err
	}
	defer of.Close()
	bw := bufio.NewWriterSize(of, 1<<20)
	defer bw.Flush()
	enc := json.NewEncoder(bw)
	cat := mcCatalog()
	hdr := cat.header()
	hdr["catmeta"] = map[string]any{"kind": "mc"}
	enc.Encode(hdr)
	sf, err := os.Open(*scen)
	if err != nil {
		return err
	}
	defer sf.Close()
	sc := bufio.NewScanner(sf)
	sc.Buffer(make([]byte, 1<<20), 1<<26)
	n := 0
	for sc.Scan() {
		var s immwScen
		if err := json.Unmarshal(sc.Bytes(), &s); err != nil {
			return fmt.Errorf("schedule: %v", err)
		}
		for r := 0; r < *reps; r++ {
			if err := immwRaceRun(enc, cat, &s); err != nil {
				return err
			}
			n++
		}
	}
	fmt.Printf("{\"scenarios\":%d}\n", n)
	return nil
}

func immwRaceRun(enc *json.Encoder, cat *Catalog, s *immwScen) error {
	mem := ocimem.New()
	w := &world{cat: cat, top: mem, writers: map[string]BlobWriterT{}, ids: map[string]string{}, out: enc}
	w.snapAll = append(w.snapAll, mem)
	w.emit(ev{"op": "reset", "imm": false, "stack": "immw(mem)", "hops": 0, "rec": false, "omitdigest": false, "wrap": "immw", "minchunk": 8192,
		"sched": s.Sched})
	ctx := context.Background()
	w.direct = true
	for _, op := range s.Pre {
		w.step(ctx, op)
		w.snap(ctx)
	}
	procs := []string{"A", "B"}
	g := &raceGate{Interface: mem, w: w, arrive: map[string]chan struct{}{}, goon: map[string]chan struct{}{}, done: map[string]chan struct{}{}}
	ret := map[string]chan ev{}
	for _, p := range procs {
		g.arrive[p], g.goon[p], g.done[p] = make(chan struct{}), make(chan struct{}), make(chan struct{})
		ret[p] = make(chan ev, 1)
	}
	top := ocifilter.Immutable(g)
	for _, p := range procs {
		p := p
		a := s.Arg[p]
		go func() {
			e := ev{"op": "wret", "p": p, "r": a.R, "t": a.T, "c": a.C, "mt": a.MT, "mout": s.Out[p]}
			defer func() {
				if x := recover(); x != nil {
					e["op"] = "panic"
					e["panic"] = fmt.Sprint(x)
				}
				ret[p] <- e
			}()
			tag := a.T
			if tag == "-" {
				tag = ""
			}
			buf := append([]byte(nil), cat.byID[a.C].Data...)
			d, err := top.PushManifest(context.WithValue(ctx, procKey{}, p), a.R, tag, buf, mtConcrete[a.MT])
			observeErr(e, err)
			e["d"] = "-"
			if err == nil {
				e["d"] = cat.cidOfDigest(d.Digest)
			}
		}()
	}
	finished := map[string]bool{}
	atCall := map[string]bool{}
	// advance waits until p is at a call on the registry or has returned (the return is recorded at once, so
	// that it precedes the next step of the other caller)
	advance := func(p string) error {
		if finished[p] || atCall[p] {
			return nil
		}
		select {
		case <-g.arrive[p]:
			atCall[p] = true
		case e := <-ret[p]:
			finished[p] = true
			w.direct = false
			w.emit(e)
		case <-time.After(20 * time.Second):
			return fmt.Errorf("caller %s neither called the registry nor returned", p)
		}
		return nil
	}
	// one slot: p's pending call on the registry runs to completion
	slot := func(p string) error {
		if err := advance(p); err != nil || finished[p] {
			return err
		}
		atCall[p] = false
		g.goon[p] <- struct{}{}
		select {
		case <-g.done[p]:
		case <-time.After(20 * time.Second):
			return fmt.Errorf("caller %s: registry call did not complete", p)
		}
		return advance(p)
	}
	for _, p := range s.Sched {
		if err := slot(p); err != nil {
			return err
		}
	}
	// whatever is left (a schedule of the model may be shorter than what the code does): one caller after the other
	for _, p := range procs {
		for i := 0; !finished[p] && i < 50; i++ {
			if err := slot(p); err != nil {
				return err
			}
		}
		if !finished[p] {
			return fmt.Errorf("caller %s did not finish", p)
		}
	}
	return nil
}
