//go:build verif

package main

import (
	"bufio"
	"context"
	"encoding/json"
	"flag"
	"fmt"
	"math/rand"
	"os"
	"runtime"
	"sort"
	"strings"
	"sync"
	"sync/atomic"
	"time"

	"bytes"
	"io"

	"cuelabs.dev/go/oci/ociregistry"
	"cuelabs.dev/go/oci/ociregistry/ocimem"
	"github.com/opencontainers/go-digest"
)

// consultingReader is blob content whose producer asks the registry something before it
// delivers its first byte: a push that kept the registry locked while reading its content
// would never finish.
type consultingReader struct {
	ask  func()
	rest io.Reader
}

func (c *consultingReader) Read(p []byte) (int, error) {
	if c.ask != nil {
		c.ask()
		c.ask = nil
	}
	return c.rest.Read(p)
}

func init() { commands["conc"] = concCmd }

var errHang = fmt.Errorf("a call did not return")

// concCmd records concurrent histories of the in-memory registry (directly or behind a
// client/server hop).  Every call is logged as an invocation event and a response event,
// stamped with a global atomic sequence number taken at invocation and at return (a sound
// real-time partial order); events are written in sequence order.
//
//	-mode stress    seeded batches of goroutines over a small key space; the verif yield
//	                hook (ocimem.VerifHook) randomly yields/sleeps to widen windows
//	-mode directed  schedules (one JSON object per line in -sched): goroutines are stepped
//	                one at a time; a goroutine parks at every ocimem yield point
func concCmd(args []string) error {
	fs := flag.NewFlagSet("conc", flag.ExitOnError)
	seed := fs.Int64("seed", 1, "seed")
	n := fs.Int("n", 50, "number of stress histories")
	gor := fs.Int("g", 4, "max goroutines per history")
	opsPer := fs.Int("ops", 8, "max ops per goroutine")
	mode := fs.String("mode", "stress", "stress or directed")
	sched := fs.String("sched", "", "file of directed schedules")
	stacks := fs.String("stacks", "mem", "stack expressions (mem or http(mem))")
	immMode := fs.String("imm", "both", "immutable-tags mode")
	out := fs.String("out", "", "trace file")
	fs.Parse(args)
	f, err := os.Create(*out)
	if err != nil {
		return err
	}
	defer f.Close()
	bw := bufio.NewWriterSize(f, 1<<20)
	defer bw.Flush()
	enc := json.NewEncoder(bw)
	cat := mcCatalog()
	enc.Encode(cat.header())
	rnd := rand.New(rand.NewSource(*seed))
	total := 0
	if *mode == "racesweep" {
		// first clause of C08 only: every reading method against every writing method on one repository,
		// no recording; the Go race detector (harness built with -race) is the observer
		for _, st := range strings.Split(*stacks, ";") {
			if err := raceSweep(cat, rnd, st, *n); err != nil {
				return err
			}
		}
		fmt.Printf("{\"histories\":0,\"racesweep\":true}\n")
		return nil
	}
	if *mode == "directed" {
		sf, err := os.Open(*sched)
		if err != nil {
			return err
		}
		defer sf.Close()
		sc := bufio.NewScanner(sf)
		sc.Buffer(make([]byte, 1<<20), 1<<26)
		for sc.Scan() {
			var d directed
			if err := json.Unmarshal(sc.Bytes(), &d); err != nil {
				return fmt.Errorf("schedule: %v", err)
			}
			if err := runDirected(enc, cat, d); err != nil {
				if err == errHang {
					bw.Flush()
					fmt.Printf("{\"histories\":%d,\"hang\":true}\n", total+1)
					os.Exit(0)
				}
				return err
			}
			total++
		}
	} else {
		for i := 0; i < *n; i++ {
			for _, st := range strings.Split(*stacks, ";") {
				imm := rnd.Intn(2) == 0
				if *immMode != "both" {
					imm = *immMode == "true"
				}
				if err := runStress(enc, cat, rnd, st, imm, *gor, *opsPer); err != nil {
					if err == errHang {
						// the history recorded so far (ending in the hang event) is what gets judged
						bw.Flush()
						fmt.Printf("{\"histories\":%d,\"hang\":true}\n", total+1)
						os.Exit(0)
					}
					return err
				}
				total++
			}
		}
	}
	fmt.Printf("{\"histories\":%d}\n", total)
	return nil
}

type seqEv struct {
	seq int64
	e   ev
}

type histRec struct {
	mu  sync.Mutex
	seq atomic.Int64
	evs []seqEv
}

func (h *histRec) add(e ev) {
	s := h.seq.Add(1)
	h.mu.Lock()
	h.evs = append(h.evs, seqEv{s, e})
	h.mu.Unlock()
}

// call performs one op as goroutine g, logging inv and ret.
func (h *histRec) call(ctx context.Context, w *world, g int, op Op) {
	inv := opEvent(op)
	inv["e"] = "inv"
	inv["g"] = g
	inv["direct"] = false
	h.add(inv)
	ret := w.exec(ctx, op)
	ret["e"] = "ret"
	ret["g"] = g
	ret["direct"] = false
	h.add(ret)
}

func (h *histRec) flush(enc *json.Encoder) {
	sort.Slice(h.evs, func(i, j int) bool { return h.evs[i].seq < h.evs[j].seq })
	for _, e := range h.evs {
		enc.Encode(e.e)
	}
}

// concOps draws ops over a deliberately tiny key space so that goroutines collide.
func concOps(rnd *rand.Rand, cat *Catalog, n int, imm bool, sharedWriter bool) []Op {
	r := "r1"
	blobs := []string{"b1", "b2"}
	mans := []string{"img", "idx", "sub"}
	tags := []string{"t1"}
	pick := func(xs []string) string { return xs[rnd.Intn(len(xs))] }
	var ops []Op
	for len(ops) < n {
		k := rnd.Intn(100)
		if !sharedWriter && k >= 88 {
			// one client-side writer object is not meant to be shared after a Commit (its location
			// becomes the blob URL): over HTTP the goroutines leave the upload session alone
			k = rnd.Intn(88)
		}
		switch {
		case k < 10:
			c := pick(blobs)
			ops = append(ops, Op{Op: "PushBlob", R: r, C: c, DD: c, DS: len(cat.byID[c].Data)})
		case k < 28:
			m := pick(mans)
			t := "-"
			if rnd.Intn(3) != 0 {
				t = pick(tags)
			}
			mt := cat.byID[m].Natural
			if rnd.Intn(6) == 0 {
				mt = "other"
			}
			ops = append(ops, Op{Op: "PushManifest", R: r, T: t, C: m, MT: mt})
		case k < 38:
			ops = append(ops, Op{Op: "DeleteManifest", R: r, C: pick(mans)})
		case k < 43:
			ops = append(ops, Op{Op: "DeleteBlob", R: r, C: pick(blobs)})
		case k < 47:
			ops = append(ops, Op{Op: "DeleteTag", R: r, T: pick(tags)})
		case k < 62:
			ops = append(ops, Op{Op: "GetTag", R: r, T: pick(tags)})
		case k < 68:
			ops = append(ops, Op{Op: "ResolveTag", R: r, T: pick(tags)})
		case k < 74:
			ops = append(ops, Op{Op: "GetManifest", R: r, C: pick(mans)})
		case k < 80:
			ops = append(ops, Op{Op: "GetBlob", R: r, C: pick(blobs)})
		case k < 83:
			ops = append(ops, Op{Op: "Referrers", R: r, C: pick(mans)})
		case k < 85:
			ops = append(ops, Op{Op: "ListTags", R: r})
		case k < 88:
			ops = append(ops, Op{Op: "MountBlob", From: r, R: "r2", C: pick(blobs)})
		case k < 93:
			// writes on the one shared upload session
			d := [][]int{{1}, {2}, {1, 2}}[rnd.Intn(3)]
			ops = append(ops, Op{Op: "Write", R: r, U: "u1", Data: d})
		case k < 97:
			ops = append(ops, Op{Op: "Commit", R: r, U: "u1", DD: pick(blobs)})
		default:
			ops = append(ops, Op{Op: "UpSize", R: r, U: "u1"})
		}
	}
	return ops
}

func runStress(enc *json.Encoder, cat *Catalog, rnd *rand.Rand, stack string, imm bool, maxG, maxOps int) error {
	env := &stackEnv{imm: imm}
	top, rest, err := env.build(stack)
	if err != nil || strings.TrimSpace(rest) != "" {
		return fmt.Errorf("stack %q: %v", stack, err)
	}
	defer env.close()
	w := &world{cat: cat, top: top, writers: map[string]BlobWriterT{}, ids: map[string]string{}}
	ctx := context.Background()
	h := &histRec{}
	enc.Encode(ev{"op": "reset", "e": "reset", "imm": imm, "stack": stack, "hops": strings.Count(stack, "http"), "rec": false,
		"omitdigest": false, "wrap": "none", "minchunk": 8192})
	// sequential set-up (goroutine 0): some content, and the shared upload session
	setup := []Op{{Op: "PushBlob", R: "r1", C: "b1", DD: "b1", DS: 1}, {Op: "PushBlobChunked", R: "r1", U: "u1"}}
	if rnd.Intn(2) == 0 {
		setup = append(setup, Op{Op: "PushManifest", R: "r1", T: "t1", C: "img", MT: "image"})
	}
	for _, op := range setup {
		h.call(ctx, w, 0, op)
	}
	hookSeed := rnd.Int63()
	// the yield hook widens the windows between critical sections
	var hookN atomic.Int64
	ocimem.VerifHook = func(point string) {
		k := hookN.Add(1)
		switch (hookSeed + k*2654435761) % 4 {
		case 0:
			runtime.Gosched()
		case 1:
			time.Sleep(time.Duration(50+(hookSeed+k)%200) * time.Microsecond)
		}
	}
	g := 2 + rnd.Intn(maxG-1)
	progs := make([][]Op, g)
	for i := range progs {
		progs[i] = concOps(rnd, cat, 2+rnd.Intn(maxOps-1), imm, !strings.Contains(stack, "http"))
	}
	if rnd.Intn(3) == 0 {
		// contention: every goroutine starts with the same kind of write on the same key at the
		// same moment - large manifests pushed to one tag, or blobs pushed into a repository
		// that does not exist yet while others look at it
		bigs := []string{"big1", "big2", "big3"}
		for i := range progs {
			var pre []Op
			if rnd.Intn(2) == 0 {
				pre = []Op{{Op: "PushManifest", R: "r1", T: "t2", C: bigs[(i+int(hookSeed%3))%3], MT: "other"}, {Op: "ResolveTag", R: "r1", T: "t2"}}
			} else if i%2 == 0 {
				pre = []Op{{Op: "PushBlob", R: "r2", C: "b2", DD: "b2", DS: 2, Chunk: 1}}
			} else {
				pre = []Op{{Op: "ListRepos"}, {Op: "ResolveBlob", R: "r2", C: "b2"}, {Op: "ListRepos"}, {Op: "GetBlob", R: "r2", C: "b2"}}
			}
			progs[i] = append(pre, progs[i]...)
		}
	}
	bigCommit := !strings.Contains(stack, "http") && rnd.Intn(4) == 0
	if bigCommit {
		// a session holding 12 MiB is committed while another goroutine writes one more byte to it: the
		// commit has to store exactly what it checked
		for _, op := range []Op{{Op: "PushBlobChunked", R: "r1", U: "u2"}, {Op: "Write", R: "r1", U: "u2", Data: cat.byID["bigb"].Elems}} {
			h.call(ctx, w, 0, op)
		}
		progs[0] = append([]Op{{Op: "Commit", R: "r1", U: "u2", DD: "bigb"}}, progs[0]...)
		progs[1] = append([]Op{{Op: "Sleep", Off: 200 + rnd.Intn(40000)}, {Op: "Write", R: "r1", U: "u2", Data: []int{1}}}, progs[1]...)
	}
	var wg sync.WaitGroup
	start := make(chan struct{})
	for i := range progs {
		wg.Add(1)
		go func(i int) {
			defer wg.Done()
			<-start
			for _, op := range progs[i] {
				if op.Op == "Sleep" {
					time.Sleep(time.Duration(op.Off) * time.Microsecond)
					continue
				}
				h.call(ctx, w, i+1, op)
			}
		}(i)
	}
	close(start)
	allDone := make(chan struct{})
	go func() { wg.Wait(); close(allDone) }()
	select {
	case <-allDone:
	case <-time.After(hangTimeout):
		// some goroutine never came back from a call: the history ends with an event no specification explains
		h.add(ev{"e": "hang", "op": "hang", "g": 0, "direct": false})
		h.flush(enc)
		return errHang
	}
	ocimem.VerifHook = nil
	// a sequential epilogue reads everything back (goroutine 0): pins down the final state
	for _, op := range []Op{{Op: "ResolveTag", R: "r1", T: "t1"}, {Op: "GetTag", R: "r1", T: "t1"}, {Op: "GetBlob", R: "r1", C: "b1"},
		{Op: "GetBlob", R: "r1", C: "b2"}, {Op: "ResolveManifest", R: "r1", C: "img"}, {Op: "ResolveManifest", R: "r1", C: "idx"},
		{Op: "ResolveManifest", R: "r1", C: "sub"}, {Op: "UpSize", R: "r1", U: "u1"}, {Op: "ResolveTag", R: "r1", T: "t2"},
		{Op: "ResolveBlob", R: "r2", C: "b2"}, {Op: "ListRepos"}} {
		h.call(ctx, w, 0, op)
	}
	if bigCommit {
		for _, op := range []Op{{Op: "GetBlob", R: "r1", C: "bigb"}, {Op: "UpSize", R: "r1", U: "u2"}} {
			h.call(ctx, w, 0, op)
		}
	}
	h.flush(enc)
	return nil
}

// directed is a schedule: goroutines run programs; sched names which goroutine takes its
// next step (run until the next yield point or until its current call returns).
type directed struct {
	Imm   bool            `json:"imm"`
	Setup []Op            `json:"setup"`
	Progs map[string][]Op `json:"progs"`
	Sched []string        `json:"sched"`
	Final []Op            `json:"final"`
}

type dgor struct {
	id      int
	prog    []Op
	next    int
	pending bool          // last step neither parked nor returned yet (blocked on a lock, or slow)
	running bool          // inside a call, parked at a yield point
	resume  chan struct{} // release from a yield point
	parked  chan bool     // true: parked at a yield point; false: call returned
}

func runDirected(enc *json.Encoder, cat *Catalog, d directed) error {
	env := &stackEnv{imm: d.Imm}
	top, _, err := env.build("mem")
	if err != nil {
		return err
	}
	defer env.close()
	w := &world{cat: cat, top: top, writers: map[string]BlobWriterT{}, ids: map[string]string{}}
	ctx := context.Background()
	h := &histRec{}
	enc.Encode(ev{"op": "reset", "e": "reset", "imm": d.Imm, "stack": "mem", "hops": 0, "rec": false, "omitdigest": false,
		"wrap": "none", "minchunk": 8192, "directed": true})
	for _, op := range d.Setup {
		h.call(ctx, w, 0, op)
	}
	names := make([]string, 0, len(d.Progs))
	for k := range d.Progs {
		names = append(names, k)
	}
	sort.Strings(names)
	gs := map[string]*dgor{}
	for i, k := range names {
		gs[k] = &dgor{id: i + 1, prog: d.Progs[k], resume: make(chan struct{}), parked: make(chan bool)}
	}
	// The hook finds out which scheduled goroutine is calling from the goroutine id.  A goroutine can
	// also be blocked on a lock held by a parked goroutine: a step that neither parks nor returns within
	// a short time is left pending and picked up again by a later step.
	var byGoid sync.Map
	ocimem.VerifHook = func(point string) {
		v, ok := byGoid.Load(goid())
		if !ok {
			return
		}
		g := v.(*dgor)
		g.parked <- true
		<-g.resume
	}
	defer func() { ocimem.VerifHook = nil }()
	const patience = 25 * time.Millisecond
	await := func(g *dgor, wait time.Duration) {
		select {
		case p := <-g.parked:
			g.pending = false
			if !p {
				g.running = false
			}
		case <-time.After(wait):
			g.pending = true
		}
	}
	step := func(g *dgor, wait time.Duration) {
		if g.pending {
			await(g, wait)
			return
		}
		if g.running {
			g.resume <- struct{}{}
		} else {
			if g.next >= len(g.prog) {
				return
			}
			op := g.prog[g.next]
			g.next++
			g.running = true
			go func() {
				byGoid.Store(goid(), g)
				h.call(ctx, w, g.id, op)
				g.parked <- false
			}()
		}
		await(g, wait)
	}
	for _, name := range d.Sched {
		if g := gs[name]; g != nil {
			step(g, patience)
		}
	}
	// drain: let every goroutine finish what it started and run the rest of its program
	drainStart := time.Now()
	for round := 0; round < 10000; round++ {
		if time.Since(drainStart) > hangTimeout {
			// some call never comes back however long the others are given: the history ends here
			h.add(ev{"e": "hang", "op": "hang", "g": 0, "direct": false})
			h.flush(enc)
			return errHang
		}
		busy := false
		for _, k := range names {
			g := gs[k]
			if g.running || g.pending || g.next < len(g.prog) {
				busy = true
				step(g, patience)
			}
		}
		if !busy {
			break
		}
	}
	for _, op := range d.Final {
		h.call(ctx, w, 0, op)
	}
	h.flush(enc)
	return nil
}

// goid returns the id of the calling goroutine (parsed from the stack header; harness use only).
func goid() int64 {
	var buf [64]byte
	n := runtime.Stack(buf[:], false)
	var id int64
	fmt.Sscanf(string(buf[:n]), "goroutine %d ", &id)
	return id
}

// raceSweep runs, for a number of rounds, goroutines that only read (every reading and listing
// method, on the registry and on blob readers) against goroutines that only write (pushes, tags,
// deletes, mounts, uploads) over one small key space.  Nothing is recorded.
func raceSweep(cat *Catalog, rnd *rand.Rand, stack string, rounds int) error {
	for round := 0; round < rounds; round++ {
		env := &stackEnv{imm: round%2 == 1}
		top, rest, err := env.build(stack)
		if err != nil || strings.TrimSpace(rest) != "" {
			return fmt.Errorf("stack %q: %v", stack, err)
		}
		w := &world{cat: cat, top: top, writers: map[string]BlobWriterT{}, ids: map[string]string{}}
		ctx := context.Background()
		for _, op := range []Op{{Op: "PushBlob", R: "r1", C: "b1", DD: "b1", DS: 1}, {Op: "PushBlob", R: "r1", C: "b2", DD: "b2", DS: 2},
			{Op: "PushManifest", R: "r1", T: "t1", C: "img", MT: "image"}, {Op: "PushBlobChunked", R: "r1", U: "u1"}} {
			w.exec(ctx, op)
		}
		reads := []Op{{Op: "GetBlob", R: "r1", C: "b1"}, {Op: "GetBlobRange", R: "r1", C: "b2", O0: 0, O1: 1}, {Op: "ResolveBlob", R: "r1", C: "b2"},
			{Op: "GetManifest", R: "r1", C: "img"}, {Op: "ResolveManifest", R: "r1", C: "sub"}, {Op: "GetTag", R: "r1", T: "t1"},
			{Op: "ResolveTag", R: "r1", T: "t1"}, {Op: "Referrers", R: "r1", C: "img"}, {Op: "ListTags", R: "r1"}, {Op: "ListRepos"},
			{Op: "UpSize", R: "r1", U: "u1"}}
		writes := []Op{{Op: "PushManifest", R: "r1", T: "t1", C: "sub", MT: "image"}, {Op: "PushManifest", R: "r1", T: "-", C: "idx", MT: "index"},
			{Op: "PushManifest", R: "r1", T: "t2", C: "img", MT: "image"}, {Op: "DeleteManifest", R: "r1", C: "sub"}, {Op: "DeleteManifest", R: "r1", C: "idx"},
			{Op: "DeleteTag", R: "r1", T: "t2"}, {Op: "PushBlob", R: "r2", C: "b1", DD: "b1", DS: 1}, {Op: "MountBlob", From: "r1", R: "r2", C: "b2"},
			{Op: "DeleteBlob", R: "r2", C: "b1"}, {Op: "Write", R: "r1", U: "u1", Data: []int{1}}, {Op: "Resume", R: "r1", U: "u1", Off: -1},
			{Op: "Commit", R: "r1", U: "u1", DD: "b1"}, {Op: "PushBlobChunked", R: "r2", U: fmt.Sprintf("v%d", round)}}
		var wg sync.WaitGroup
		seed := rnd.Int63()
		for g := 0; g < 4; g++ {
			wg.Add(1)
			go func(g int) {
				defer wg.Done()
				r := rand.New(rand.NewSource(seed + int64(g)))
				ops := reads
				if g%2 == 1 {
					ops = writes
				}
				for i := 0; i < 60; i++ {
					w.exec(ctx, ops[r.Intn(len(ops))])
				}
			}(g)
		}
		wg.Add(1)
		go func() {
			defer wg.Done()
			for i := 0; i < 4; i++ {
				data := []byte(fmt.Sprintf("content-%d-%d", round, i))
				desc := ociregistry.Descriptor{MediaType: "application/octet-stream", Digest: digest.FromBytes(data), Size: int64(len(data))}
				ask := func() {
					if rd, err := top.GetTag(ctx, "r1", "t1"); err == nil {
						rd.Close()
					}
					for range top.Repositories(ctx, "") {
					}
				}
				top.PushBlob(ctx, "r3", desc, &consultingReader{ask: ask, rest: bytes.NewReader(data)})
			}
		}()
		swept := make(chan struct{})
		go func() { wg.Wait(); close(swept) }()
		select {
		case <-swept:
		case <-time.After(hangTimeout):
			// some call never came back (a deadlock): nothing more can be done with this process
			fmt.Fprintf(os.Stderr, "HANG: a call did not return within %v during the race sweep (round %d, stack %s)\n", hangTimeout, round, stack)
			os.Exit(67)
		}
		env.close()
	}
	return nil
}
