package main

import (
	"encoding/json"
	"math/rand"

	"cuelabs.dev/go/oci/ociregistry"
)

type BlobWriterT = ociregistry.BlobWriter

// randOps draws a seeded-random history over the catalogue's universe.  Arguments are
// biased towards values that make calls succeed (things pushed earlier) but every
// argument is sometimes drawn blindly.
func randOps(rnd *rand.Rand, cat *Catalog, steps int, profile string, honest bool) []Op {
	var blobs, mans, phantoms []string
	for _, c := range cat.Contents {
		if c.Phantom {
			phantoms = append(phantoms, c.ID)
		} else if c.Man {
			mans = append(mans, c.ID)
		} else {
			blobs = append(blobs, c.ID)
		}
	}
	pick := func(xs []string) string { return xs[rnd.Intn(len(xs))] }
	// a digest argument: now and then a well-formed digest of another algorithm (held by nobody)
	digOf := func(xs []string) string {
		if len(phantoms) > 0 && rnd.Intn(12) == 0 {
			return pick(phantoms)
		}
		return pick(xs)
	}
	// a single repository gets most of the traffic so that histories are deep
	hot := pick(cat.Repos)
	repo := func() string {
		if genBadNames && rnd.Intn(40) == 0 {
			return pick(badRepos)
		}
		if rnd.Intn(4) != 0 {
			return hot
		}
		return pick(cat.Repos)
	}
	pushedB := map[string]bool{}
	pushedM := []string{}
	startOf := func(universe []string) string {
		switch rnd.Intn(4) {
		case 0:
			return ""
		case 1:
			return pick(universe)
		case 2:
			return pick(universe) + "0"
		}
		return pick([]string{"0", "a0", "m", "zzzz", "A"})
	}
	var ops []Op
	var hs []*honestUp
	openU := map[string][]int{} // what we believe was written to each upload
	uRepo := map[string]string{}
	nextU := 0
	var pickU0 func() string
	retired := map[string]bool{}
	pickU := func() string {
		for i := 0; i < 8; i++ {
			if u := pickU0(); !retired[u] {
				return u
			}
		}
		// every draw was a finished session: any session that is not (the reserved names at the end first)
		for i := len(cat.Uploads) - 1; i >= 0; i-- {
			if !retired[cat.Uploads[i]] {
				return cat.Uploads[i]
			}
		}
		return cat.Uploads[len(cat.Uploads)-1]
	}
	_ = pickU
	pickU0 = func() string {
		// mostly a session that exists, mostly the latest
		if nextU > 0 && rnd.Intn(10) != 0 {
			if rnd.Intn(3) != 0 {
				return cat.Uploads[nextU-1]
			}
			return cat.Uploads[rnd.Intn(nextU)]
		}
		return cat.Uploads[len(cat.Uploads)-1-rnd.Intn(2)]
	}
	repoOfU := func(u string) string {
		if r, ok := uRepo[u]; ok && (genRetireAfterCommit || rnd.Intn(8) != 0) {
			return r
		}
		return repo()
	}
	for len(ops) < steps {
		k := rnd.Intn(100)
		if profile == "range" && k >= 52 && rnd.Intn(10) < 6 {
			k = 66 + rnd.Intn(9)
		}
		if profile == "upload" && k >= 30 {
			k = 30 + rnd.Intn(22)
		}
		if profile == "manifest" && k >= 12 && k < 52 {
			k = rnd.Intn(30)
			if k >= 12 {
				k = 12 + (k-12)%18
			}
		}
		if honest && k >= 34 && k < 52 {
			// Uploads as a well-behaved caller drives them: one target blob per session,
			// pieces in order, resume at the reported size (or by asking), one commit.
			if len(hs) == 0 || (len(hs) < 3 && rnd.Intn(3) == 0) {
				if nextU >= len(cat.Uploads)-2 {
					continue
				}
				u := cat.Uploads[nextU]
				nextU++
				s := &honestUp{u: u, r: repo(), target: cat.byID[pick(blobs)]}
				hs = append(hs, s)
				ops = append(ops, Op{Op: "PushBlobChunked", R: s.r, U: u, Chunk: pick3(rnd)})
				continue
			}
			i := rnd.Intn(len(hs))
			s := hs[i]
			switch x := rnd.Intn(10); {
			case x < 5 && s.pos < len(s.target.Elems):
				n := 1 + rnd.Intn(len(s.target.Elems)-s.pos)
				ops = append(ops, Op{Op: "Write", R: s.r, U: s.u, Data: s.target.Elems[s.pos : s.pos+n]})
				s.pos += n
			case x < 7:
				size := len(elemsToBytes(s.target.Elems[:s.pos]))
				off := size
				if rnd.Intn(2) == 0 && size != 1 {
					off = -1
				}
				ops = append(ops, Op{Op: "Close", R: s.r, U: s.u}, Op{Op: "Resume", R: s.r, U: s.u, Off: off, Chunk: pick3(rnd)})
			case x < 8:
				ops = append(ops, Op{Op: "UpSize", R: s.r, U: s.u})
			default:
				dd := s.target.ID
				if s.pos < len(s.target.Elems) || rnd.Intn(6) == 0 {
					// an early or wrong commit: must fail and store nothing
					dd = digOf(blobs)
				}
				ops = append(ops, Op{Op: "Commit", R: s.r, U: s.u, DD: dd})
				hs = append(hs[:i], hs[i+1:]...)
			}
			continue
		}
		if !honest && profile != "manifest" && rnd.Intn(14) == 0 {
			// the upload requests as a plain HTTP client may send them (skipped where the stack has
			// no HTTP server in front): any offset, with or without a Content-Range
			u := pickU()
			r := repoOfU(u)
			b := cat.byID[pick(blobs)]
			have := len(openU[u])
			var data []int
			if have < len(b.Elems) && rnd.Intn(4) != 0 {
				data = b.Elems[have : have+1+rnd.Intn(len(b.Elems)-have)]
			} else if len(b.Elems) > 0 && rnd.Intn(3) != 0 {
				data = b.Elems[:1+rnd.Intn(len(b.Elems))]
			}
			off := len(elemsToBytes(openU[u]))
			switch rnd.Intn(6) {
			case 0:
				off = -2
			case 1:
				off = rnd.Intn(4)
			}
			streamed := 0
			if rnd.Intn(3) == 0 {
				streamed = 1 // no Content-Length
			}
			switch x := rnd.Intn(10); {
			case x < 5:
				ops = append(ops, Op{Op: "RawPatch", R: r, U: u, Data: data, Off: off, Chunk: streamed})
				openU[u] = append(openU[u], data...)
			case x < 8:
				dd := digOf(blobs)
				all := append(append([]int{}, openU[u]...), data...)
				if rnd.Intn(4) != 0 {
					for _, c := range blobs {
						if equalInts(cat.byID[c].Elems, all) {
							dd = c
						}
					}
				}
				ops = append(ops, Op{Op: "RawPut", R: r, U: u, Data: data, Off: off, DD: dd, Chunk: streamed})
				openU[u] = all
			default:
				ops = append(ops, Op{Op: "RawStatus", R: r, U: u})
			}
			if _, ok := uRepo[u]; !ok {
				uRepo[u] = r
			}
			continue
		}
		switch {
		case k < 12: // push blob
			c := pick(blobs)
			if rnd.Intn(12) == 0 {
				// the bytes of a manifest pushed as a blob
				if m := pick(mans); len(cat.byID[m].Data) < 65536 {
					c = m
				}
			}
			op := Op{Op: "PushBlob", R: repo(), C: c, DD: c, DS: len(cat.byID[c].Data)}
			switch rnd.Intn(10) {
			case 0:
				op.DD = digOf(blobs)
			case 1:
				op.DS += 1 + rnd.Intn(2)
			case 2:
				if op.DS > 0 {
					op.DS--
				}
			case 3:
				op.DD = "?"
			}
			if rnd.Intn(5) == 0 {
				// stored and served under the media type it is pushed with
				op.BMT = pick([]string{"other2", "image", "other3"})
			}
			if op.DD == c && op.DS == len(cat.byID[c].Data) {
				pushedB[c] = true
			}
			ops = append(ops, op)
		case k < 30: // push manifest: first make what it needs likely present
			m := pick(mans)
			c := cat.byID[m]
			r := repo()
			mt := c.Natural
			switch rnd.Intn(8) {
			case 0:
				mt = "other"
			case 1:
				mt = pick([]string{"image", "index", "other2", "other3", "other4", "other4"})
			}
			if !json.Valid(c.Data) && rnd.Intn(3) == 0 {
				// bytes that are not JSON, offered as a manifest type the registry reads
				mt = pick([]string{"image", "index"})
			}
			if v, ok := c.As[mt]; ok && rnd.Intn(4) != 0 {
				for _, b := range v.Blobs {
					if !pushedB[b] || rnd.Intn(3) == 0 {
						ops = append(ops, Op{Op: "PushBlob", R: r, C: b, DD: b, DS: len(cat.byID[b].Data)})
						pushedB[b] = true
					}
				}
			}
			t := "-"
			if rnd.Intn(2) == 0 {
				t = pick(cat.Tags)
			}
			ops = append(ops, Op{Op: "PushManifest", R: r, T: t, C: m, MT: mt})
			pushedM = append(pushedM, m)
		case k < 32:
			ops = append(ops, Op{Op: "MountBlob", From: repo(), R: repo(), C: digOf(blobs)})
		case k < 34:
			// single-POST upload, sometimes with a digest that is not the content's
			c := pick(blobs)
			dd := c
			if rnd.Intn(3) == 0 {
				dd = digOf(blobs)
			}
			ops = append(ops, Op{Op: "PostBlob", R: repo(), C: c, DD: dd})
		case k < 38:
			if nextU >= len(cat.Uploads)-2 {
				// the last two names are never allocated: they stand for sessions that do not exist
				continue
			}
			u := cat.Uploads[nextU]
			nextU++
			r := repo()
			ops = append(ops, Op{Op: "PushBlobChunked", R: r, U: u, Chunk: rnd.Intn(3)})
			openU[u] = []int{}
			uRepo[u] = r
		case k < 44:
			u := pickU()
			// write a piece of some blob, usually the piece that comes next
			b := cat.byID[pick(blobs)]
			have := len(openU[u])
			var data []int
			if have < len(b.Elems) && rnd.Intn(4) != 0 {
				n := 1 + rnd.Intn(len(b.Elems)-have)
				data = b.Elems[have : have+n]
			} else if len(b.Elems) > 0 {
				data = b.Elems[:1+rnd.Intn(len(b.Elems))]
			}
			ops = append(ops, Op{Op: "Write", R: repoOfU(u), U: u, Data: data})
			openU[u] = append(openU[u], data...)
		case k < 47:
			u := pickU()
			off := len(elemsToBytes(openU[u]))
			switch rnd.Intn(5) {
			case 0:
				off = -1
			case 1:
				off = rnd.Intn(4)
			}
			r := repoOfU(u)
			ops = append(ops, Op{Op: "Close", R: repoOfU(u), U: u}, Op{Op: "Resume", R: r, U: u, Off: off, Chunk: rnd.Intn(3)})
			uRepo[u] = r
		case k < 50:
			u := pickU()
			dd := digOf(blobs)
			// usually commit with the digest of what was written
			if rnd.Intn(4) != 0 {
				for _, b := range blobs {
					if equalInts(cat.byID[b].Elems, openU[u]) {
						dd = b
					}
				}
			}
			ops = append(ops, Op{Op: "Commit", R: repoOfU(u), U: u, DD: dd})
			if genRetireAfterCommit {
				retired[u] = true
			}
		case k < 51:
			u := pickU()
			ops = append(ops, Op{Op: "Cancel", R: repoOfU(u), U: u})
		case k < 52:
			u := pickU()
			ops = append(ops, Op{Op: "UpSize", R: repoOfU(u), U: u})
		case k < 57:
			ops = append(ops, Op{Op: "DeleteBlob", R: repo(), C: digOf(blobs)})
		case k < 62:
			m := digOf(mans)
			if len(pushedM) > 0 && rnd.Intn(3) != 0 {
				m = pick(pushedM)
			}
			ops = append(ops, Op{Op: "DeleteManifest", R: repo(), C: m})
		case k < 66:
			ops = append(ops, Op{Op: "DeleteTag", R: repo(), T: pick(cat.Tags)})
		case k < 70:
			ops = append(ops, Op{Op: "GetBlob", R: repo(), C: digOf(blobs)})
		case k < 75:
			b := digOf(blobs)
			n := len(cat.byID[b].Elems)
			o0, o1 := rnd.Intn(n+3)-1, rnd.Intn(n+3)-1
			if containsBlock(cat.byID[b].Elems) {
				// keep ranges on element boundaries for block contents
				bounds := []int{0, blockSize, 2 * blockSize, 2*blockSize + 1, -1, 3 * blockSize}
				o0, o1 = bounds[rnd.Intn(3)], bounds[rnd.Intn(len(bounds))]
			}
			ops = append(ops, Op{Op: "GetBlobRange", R: repo(), C: b, O0: o0, O1: o1})
		case k < 79:
			ops = append(ops, Op{Op: pick([]string{"GetManifest", "ResolveManifest"}), R: repo(), C: digOf(mans)})
		case k < 84:
			ops = append(ops, Op{Op: pick([]string{"GetTag", "ResolveTag"}), R: repo(), T: pick(cat.Tags)})
		case k < 87:
			ops = append(ops, Op{Op: "ResolveBlob", R: repo(), C: digOf(blobs)})
		case k < 91:
			ops = append(ops, Op{Op: "Referrers", R: repo(), C: digOf(mans)})
		case k < 95:
			ops = append(ops, Op{Op: "ListTags", R: repo(), Start: startOf(cat.Tags)})
		default:
			ops = append(ops, Op{Op: "ListRepos", Start: startOf(cat.Repos)})
		}
	}
	return ops
}

func equalInts(a, b []int) bool {
	if len(a) != len(b) {
		return false
	}
	for i := range a {
		if a[i] != b[i] {
			return false
		}
	}
	return true
}

func containsBlock(elems []int) bool {
	for _, e := range elems {
		if e >= 256 {
			return true
		}
	}
	return false
}

type honestUp struct {
	u, r   string
	target *Content
	pos    int
}

func pick3(rnd *rand.Rand) int { return []int{0, 0, 1, 2, 3, 5}[rnd.Intn(6)] }

// genRetireAfterCommit: a session is not used again once Commit has been called on its
// writer (a client writer is finished by Commit; only ocimem's Buffer can go on).
var genRetireAfterCommit bool

// genBadNames: a small share of the calls name an ill-formed repository.
var genBadNames bool
