package main

// Command `auth` (properties C10 and C11, specification family OciAuth): drives the real
// ociauth.NewStdTransport with a stub Config (per-host credential kinds: none,
// username/password, refresh token, both, static access token, failing lookup) and a scripted
// http.RoundTripper that plays registries and token servers.  A scenario is a configuration
// plus steps (a step is one call, or a batch of calls started together on the same transport);
// every call carries the answers the registries and token servers will give it.  Scenarios come
// from TLC (walks of the model, -scen) and from a seeded generator (-n); -replay re-executes the
// scenarios stored in a replay file.
//
// Logged (ndjson): call begin/end, every configuration lookup, every request reaching the
// RoundTripper (destination host or realm, Authorization class and token / credential identity,
// token-request scope text tokenised into resource scopes) and every answer given.  The caller's
// *http.Request is snapshotted before RoundTrip and compared after it; request bodies count
// their Close calls.  No judging here: spec/OciAuthTrace.tla decides.
//
// Time: token lifetimes are real seconds inside auth.go (time.Now), so "timed" scenarios run in
// real time on a grid of half-second ticks: a step planned for tick k starts in the middle of
// tick k (k*500+250 ms); every event of the step must fall into [k*500+50, k*500+450] ms,
// otherwise the run of that scenario is discarded and repeated (the decision looks at
// timestamps only, never at what the code under test did).  All timed scenarios run
// concurrently, each with its own transport.  Untimed scenarios (all lifetimes 60 s, clock
// frozen at tick 0) run as fast as they can.

import (
	"bufio"
	"context"
	"encoding/base64"
	"encoding/json"
	"errors"
	"flag"
	"fmt"
	"io"
	"math/rand"
	"net/http"
	"net/url"
	"os"
	"sort"
	"strconv"
	"strings"
	"sync"
	"time"

	"cuelabs.dev/go/oci/ociregistry/ociauth"
)

func init() { commands["auth"] = authCmd }

const (
	auTickMs = 500
	auSafeLo = 50
	auSafeHi = 450
)

var (
	auHosts  = []string{"h1", "h2"}
	auRealms = []string{"ra", "rb"}
	// (the last one is an opaque scope whose text needs quoted-pair escapes inside a challenge)
	auRS    = []string{"repository:a:pull", "repository:a:push", "repository:b:pull", "registry:catalog:*", `odd"sc\ope`, "repository:b:delete"}
	auKinds = []string{"none", "basic", "refresh", "both", "static", "cfgerr"}
)

type auEv = map[string]any

// ---------------------------------------------------------------- scenario scripts

type auOffer struct {
	Scheme string   `json:"scheme"` // basic | bearer | other | bad
	Realm  string   `json:"realm"`  // a realm host, or "-" (missing / unusable)
	Scope  []string `json:"scope"`
}

type auRegAns struct {
	Status int       `json:"status"` // -1: transport error
	Offers []auOffer `json:"offers"`
	Hdrs   []string  `json:"hdrs"` // the concrete Www-Authenticate lines, aligned with Offers
	Texts  []string  `json:"texts"`
	Realms []string  `json:"realms"` // the realm URL each Bearer offer MEANS (unescaped; "" when none / unusable)
	Svcs   []string  `json:"svcs"`   // the service value each Bearer offer means
}

type auTokAns struct {
	Kind  string `json:"kind"` // grant | notoken | e401 | e404 | other
	Life  int    `json:"life"` // ticks (two per second); 0: not stated
	NewRT bool   `json:"newrt"`
	Var   int    `json:"var"`   // concrete variant of the class
	Delay int    `json:"delay"` // real-time scenarios: the token server answers this many ticks after the request arrived
}

type auCall struct {
	H    string     `json:"h"`
	Req  []string   `json:"req"`
	Want []string   `json:"want"`
	Body string     `json:"body"` // none | plain | getbody
	Reg  []auRegAns `json:"reg"`
	Tok  []auTokAns `json:"tok"`
	Form int        `json:"form"` // how the caller's scope texts are written
	// HostHdr: the request's Host field. "" = as http.NewRequest sets it (the URL host); "other" = the name of
	// the OTHER configured registry; "unconf" = a name nothing is configured for.  The URL - where the
	// request is actually sent - is H's in every case, and so are the credentials that may travel.
	HostHdr string `json:"hosthdr"`
	// Shape: how the caller built its *http.Request.  0: http.NewRequest.  1: by hand, &http.Request{Method, URL}
	// with a nil Header (nil Body, or the body and ContentLength -1).  2: by hand, its Header map shared with
	// another request of the caller's, holding multi-valued and non-canonical keys.  3: http.NewRequest, then
	// http.NoBody / ContentLength -1, Close, a Trailer.
	Shape int `json:"shape"`
}

type auStep struct {
	// Stagger: the second call of the batch enters RoundTrip when the first call's (delayed) token request
	// has reached the token server, i.e. while the first call holds the per-host lock of auth.go.
	Stagger bool     `json:"stagger"`
	At      int      `json:"at"`
	Calls   []auCall `json:"calls"`
}

// auNamings: how the abstract registry ids of a scenario are spelled in URLs.  In most scenarios the
// two registries differ ONLY in the port (or in having one), so that any sharing of per-host state
// keyed on less than URL.Host shows in the trace.
var auNamings = [][]string{
	{"reg.example:5000", "reg.example:5001"},
	{"reg.example", "reg.example:443"},
	{"h1", "h2"},
	{"registry.example:80", "registry.example"},
}

type auScen struct {
	Names map[string]string `json:"names"` // abstract host id -> host[:port] used in URLs
	Cfg   map[string]string `json:"cfg"`
	Timed bool              `json:"timed"`
	Src   string            `json:"src"`
	Steps []auStep          `json:"steps"`
}

// ---------------------------------------------------------------- concretisation

// auScopeText renders a set of resource-scope names as a scope string; form selects one of
// several spellings of the same set (order, grouping of actions, repetition, spacing).
func auScopeText(names []string, form int) string {
	if len(names) == 0 {
		return ""
	}
	ns := append([]string(nil), names...)
	sort.Strings(ns)
	switch form % 5 {
	case 0: // canonical-looking: one field per name
		return strings.Join(ns, " ")
	case 1: // reversed order
		for i, j := 0, len(ns)-1; i < j; i, j = i+1, j-1 {
			ns[i], ns[j] = ns[j], ns[i]
		}
		return strings.Join(ns, " ")
	case 2, 3: // actions of one resource grouped with commas (3: in reverse order)
		type key struct{ t, r string }
		var order []key
		acts := map[key][]string{}
		var out []string
		for _, n := range ns {
			p := strings.Split(n, ":")
			if len(p) != 3 {
				out = append(out, n)
				continue
			}
			k := key{p[0], p[1]}
			if _, ok := acts[k]; !ok {
				order = append(order, k)
			}
			acts[k] = append(acts[k], p[2])
		}
		for _, k := range order {
			a := acts[k]
			if form%5 == 3 {
				for i, j := 0, len(a)-1; i < j; i, j = i+1, j-1 {
					a[i], a[j] = a[j], a[i]
				}
			}
			out = append(out, k.t+":"+k.r+":"+strings.Join(a, ","))
		}
		return strings.Join(out, " ")
	default: // first name repeated, two spaces
		return strings.Join(append(ns, ns[0]), "  ")
	}
}

// auTokenise: scope text -> sorted set of resource-scope names (the documented grammar:
// whitespace-separated fields, type:resource:action[,action...]; anything else is one opaque name).
func auTokenise(text string) []string {
	set := map[string]bool{}
	for _, f := range strings.Fields(text) {
		p := strings.Split(f, ":")
		if len(p) != 3 {
			set[f] = true
			continue
		}
		for _, a := range strings.Split(p[2], ",") {
			set[p[0]+":"+p[1]+":"+a] = true
		}
	}
	out := make([]string, 0, len(set))
	for k := range set {
		out = append(out, k)
	}
	sort.Strings(out)
	return out
}

// auQuote writes an RFC 7230 quoted-string; with esc some characters are written as quoted-pairs.
func auQuote(s string, esc bool, rnd *rand.Rand) string {
	var b strings.Builder
	b.WriteByte('"')
	for i := 0; i < len(s); i++ {
		c := s[i]
		if c == '"' || c == '\\' || (esc && rnd.Intn(4) == 0) {
			b.WriteByte('\\')
		}
		b.WriteByte(c)
	}
	b.WriteByte('"')
	return b.String()
}

var auOtherHdrs = []string{
	`Negotiate`, `NTLM`, `Digest realm="http://ra/token", nonce="abc", qop="auth"`, `Bearerx realm="http://ra/token",service="svc"`,
	`Token realm="http://rb/token",scope="repository:a:pull"`, `Mutual realm="http://ra/token"`, `basicx realm="x"`,
}

var auBadHdrs = []string{
	``, `Bearer realm="http://ra/token`, `Bearer realm`, `Bearer realm=http://ra/token`, `Bearer realm="http://ra/token" scope="repository:a:pull"`,
	`=Bearer realm="http://ra/token"`, `Basic realm="x" trailing`, `Bearer realm="http://rb/token",service`, `Bearer realm="http://ra/token\"`,
	`"Bearer" realm="http://ra/token"`, `Basic realm=`, `Bearer realm="http://ra/token",scope=`,
}

// auSpell: a parameter name in lower case, Capitalised, UPPER case or mIxEd case.
func auSpell(name string, style int) string {
	switch style {
	case 1:
		return strings.ToUpper(name[:1]) + name[1:]
	case 2:
		return strings.ToUpper(name)
	case 3:
		b := []byte(name)
		for i := 1; i < len(b); i += 2 {
			b[i] = byte(strings.ToUpper(string(b[i]))[0])
		}
		return string(b)
	}
	return name
}

// auHeaderFor renders one offer as a Www-Authenticate line; -> line, and the values it MEANS: scope text,
// realm URL ("" when there is none or it is unusable), service.  Quoted values are written with quoted-pair
// escapes: a literal quote or backslash in the value must be escaped, any other character may be.
func auHeaderFor(o auOffer, rnd *rand.Rand) (string, string, string, string) {
	switch o.Scheme {
	case "basic":
		switch rnd.Intn(7) {
		case 5:
			return `Basic Realm="registry"`, "", "", ""
		case 6:
			return `BASIC REALM="Registry", Charset="UTF-8"`, "", "", ""
		case 0:
			return `Basic realm="registry"`, "", "", ""
		case 1:
			return `BASIC realm="Registry Realm", charset="UTF-8"`, "", "", ""
		case 2:
			return `basic realm=registry`, "", "", ""
		case 3:
			return `Basic`, "", "", ""
		default:
			return `Basic   realm="a \"quoted\" realm"`, "", "", ""
		}
	case "other":
		return auOtherHdrs[rnd.Intn(len(auOtherHdrs))], "", "", ""
	case "bad":
		return auBadHdrs[rnd.Intn(len(auBadHdrs))], "", "", ""
	}
	esc := rnd.Intn(4) == 0
	text := auScopeText(o.Scope, rnd.Intn(5))
	var params []string
	realmURL := ""
	if o.Realm == "-" {
		switch rnd.Intn(5) {
		case 4: // a backslash in the authority: not a URL (net/url: invalid userinfo); nothing may be sent anywhere
			params = append(params, "realm="+auQuote(`http://ra\@evil.example/token`, esc, rnd))
		case 0: // no realm at all
		case 1: // a relative reference: nothing a transport could send to
			params = append(params, `realm=token`)
		case 2:
			params = append(params, `realm="http://%zz/token"`)
		default:
			params = append(params, `realm="/just/a/path"`)
		}
	} else {
		realmURL = "http://" + o.Realm + []string{"/token", "/token", "/token", `/token\2`, `/token/q"uote`, `/token\\x/y`}[rnd.Intn(6)]
		if rnd.Intn(4) == 0 {
			realmURL += "?account=x"
		}
		params = append(params, "realm="+auQuote(realmURL, esc, rnd))
	}
	service := ""
	if rnd.Intn(3) != 0 {
		service = []string{"svc.example", "svc", `my "quoted" svc`, `back\slash`, `a\\b "c"`, "svc.example"}[rnd.Intn(6)]
		if service == "svc" {
			params = append(params, `service=svc`)
		} else {
			params = append(params, "service="+auQuote(service, esc, rnd))
		}
	}
	if text != "" || false {
		params = append(params, "scope="+auQuote(text, esc, rnd))
	}
	if rnd.Intn(4) == 0 {
		params = append(params, `error="insufficient_scope"`)
	}
	// auth-param names are case-insensitive (RFC 7235 section 2.1): one spelling style per header
	style := []int{0, 0, 1, 2, 3}[rnd.Intn(5)]
	for i, p := range params {
		if k := strings.IndexByte(p, '='); k > 0 {
			params[i] = auSpell(p[:k], style) + p[k:]
		}
	}
	rnd.Shuffle(len(params), func(i, j int) { params[i], params[j] = params[j], params[i] })
	sep := []string{",", ", ", " , ", ",\t"}[rnd.Intn(4)]
	scheme := []string{"Bearer", "Bearer", "bearer", "BEARER"}[rnd.Intn(4)]
	if len(params) == 0 {
		return scheme, text, realmURL, service
	}
	return scheme + " " + strings.Join(params, sep), text, realmURL, service
}

// auConcretise fills in the concrete header lines of every scripted registry answer.
func auConcretise(sc *auScen, rnd *rand.Rand) {
	if sc.Names == nil {
		nm := auNamings[[]int{0, 0, 1, 1, 2, 3}[rnd.Intn(6)]]
		sc.Names = map[string]string{}
		for i, h := range auHosts {
			sc.Names[h] = nm[i]
		}
	}
	for si := range sc.Steps {
		for ci := range sc.Steps[si].Calls {
			c := &sc.Steps[si].Calls[ci]
			if c.Req == nil {
				c.Req = []string{}
			}
			if c.Want == nil {
				c.Want = []string{}
			}
			if c.Reg == nil {
				c.Reg = []auRegAns{}
			}
			if c.Tok == nil {
				c.Tok = []auTokAns{}
			}
			for ai := range c.Reg {
				a := &c.Reg[ai]
				if a.Offers == nil {
					a.Offers = []auOffer{}
				}
				rnd.Shuffle(len(a.Offers), func(i, j int) { a.Offers[i], a.Offers[j] = a.Offers[j], a.Offers[i] })
				a.Hdrs = []string{}
				a.Texts = []string{}
				a.Realms = []string{}
				a.Svcs = []string{}
				for oi := range a.Offers {
					if a.Offers[oi].Scope == nil {
						a.Offers[oi].Scope = []string{}
					}
					sort.Strings(a.Offers[oi].Scope)
					h, t, ru, sv := auHeaderFor(a.Offers[oi], rnd)
					a.Realms = append(a.Realms, ru)
					a.Svcs = append(a.Svcs, sv)
					a.Hdrs = append(a.Hdrs, h)
					a.Texts = append(a.Texts, t)
				}
			}
		}
	}
}

// auHostHdr picks the Host override of a call (one call in four carries one).
func auHostHdr(rnd *rand.Rand) string {
	switch x := rnd.Intn(20); {
	case x < 3:
		return "other"
	case x < 5:
		return "unconf"
	}
	return ""
}

// ---------------------------------------------------------------- the seeded generator

func auSubset(rnd *rand.Rand, max int) []string {
	n := rnd.Intn(max + 1)
	p := rnd.Perm(len(auRS))[:n]
	out := []string{}
	for _, i := range p {
		out = append(out, auRS[i])
	}
	sort.Strings(out)
	return out
}

func auRandOffers(rnd *rand.Rand, req []string) []auOffer {
	bearer := func() auOffer {
		o := auOffer{Scheme: "bearer", Realm: auRealms[rnd.Intn(len(auRealms))]}
		if rnd.Intn(12) == 0 {
			o.Realm = "-"
		}
		switch rnd.Intn(4) {
		case 0:
			o.Scope = append([]string{}, req...)
		case 1:
			set := map[string]bool{}
			for _, x := range req {
				set[x] = true
			}
			for _, x := range auSubset(rnd, 2) {
				set[x] = true
			}
			for k := range set {
				o.Scope = append(o.Scope, k)
			}
		default:
			o.Scope = auSubset(rnd, 3)
		}
		return o
	}
	switch x := rnd.Intn(100); {
	case x < 52:
		return []auOffer{bearer()}
	case x < 64:
		return []auOffer{{Scheme: "basic", Realm: "-"}}
	case x < 72:
		return []auOffer{{Scheme: "basic", Realm: "-"}, bearer()}
	case x < 78:
		return []auOffer{{Scheme: "other", Realm: "-"}}
	case x < 84:
		return []auOffer{{Scheme: "bad", Realm: "-"}}
	case x < 88:
		return []auOffer{}
	case x < 93:
		return []auOffer{{Scheme: "other", Realm: "-"}, bearer(), {Scheme: "bad", Realm: "-"}}
	case x < 97:
		return []auOffer{bearer(), bearer()}
	default:
		return []auOffer{{Scheme: "bad", Realm: "-"}, {Scheme: "basic", Realm: "-"}, {Scheme: "other", Realm: "-"}}
	}
}

func auRandScen(rnd *rand.Rand, timed bool, maxTick int, conc bool) auScen {
	sc := auScen{Cfg: map[string]string{}, Timed: timed, Src: "rand"}
	for _, h := range auHosts {
		k := auKinds[rnd.Intn(5)]
		if rnd.Intn(14) == 0 {
			k = "cfgerr"
		}
		sc.Cfg[h] = k
	}
	nsteps := 2 + rnd.Intn(5)
	at := 0
	lives := []int{0, 2, 2, 4, 4, 6}
	for s := 0; s < nsteps; s++ {
		if timed && s > 0 {
			at += rnd.Intn(4)
			if at > maxTick {
				break
			}
		}
		st := auStep{At: at}
		ncalls := 1
		if conc && rnd.Intn(3) == 0 {
			ncalls = 2
		}
		for c := 0; c < ncalls; c++ {
			call := auCall{H: auHosts[rnd.Intn(len(auHosts))], Req: auSubset(rnd, 2), Want: []string{}, Form: rnd.Intn(5)}
			if rnd.Intn(5) < 3 && s > 0 { // favour one host so that caches get used
				call.H = auHosts[0]
			}
			if rnd.Intn(2) == 0 {
				call.Want = auSubset(rnd, 2)
			}
			call.Body = []string{"none", "none", "plain", "getbody"}[rnd.Intn(4)]
			call.HostHdr = auHostHdr(rnd)
			call.Shape = []int{0, 0, 0, 2, 3}[rnd.Intn(5)]
			if auNilHdrAny && rnd.Intn(3) == 0 {
				call.Shape = 1
			}
			first := auRegAns{Status: 200}
			switch x := rnd.Intn(100); {
			case x < 60:
				first = auRegAns{Status: 401, Offers: auRandOffers(rnd, call.Req)}
			case x < 66:
				first.Status = 403
			case x < 70:
				first.Status = 404
			case x < 74:
				first.Status = -1
			}
			second := auRegAns{Status: 200}
			switch x := rnd.Intn(100); {
			case x < 25:
				second = auRegAns{Status: 401, Offers: auRandOffers(rnd, call.Req)}
			case x < 33:
				second.Status = 403
			case x < 38:
				second.Status = -1
			}
			call.Reg = []auRegAns{first, second}
			for i := 0; i < 5; i++ {
				t := auTokAns{Kind: "grant", Var: rnd.Intn(1000)}
				switch x := rnd.Intn(100); {
				case x < 12:
					t.Kind = "e401"
				case x < 22:
					t.Kind = "e404"
				case x < 31:
					t.Kind = "other"
				case x < 38:
					t.Kind = "notoken"
				}
				if timed && t.Kind == "grant" {
					t.Life = lives[rnd.Intn(len(lives))]
				}
				if (t.Kind == "grant" || t.Kind == "notoken") && rnd.Intn(4) == 0 {
					t.NewRT = true
				}
				call.Tok = append(call.Tok, t)
			}
			st.Calls = append(st.Calls, call)
		}
		sc.Steps = append(sc.Steps, st)
	}
	return sc
}

// auExpiryScen: real-time scenarios shaped towards non-monotonic expiry on one host.  A token that
// lives long (60 s default, or 3 s) is cached first for scope {a}; then a token that lives 1-2 s is
// cached for a disjoint scope {b}; later - after the second token's expiry, while the first is still
// good - a call requires {b} again (and one requires {a}).  Whatever is between is random.
func auExpiryScen(rnd *rand.Rand, maxTick int) auScen {
	sc := auScen{Cfg: map[string]string{}, Timed: true, Src: "rand-expiry"}
	for _, h := range auHosts {
		sc.Cfg[h] = auKinds[rnd.Intn(5)]
	}
	h := auHosts[rnd.Intn(len(auHosts))]
	sc.Cfg[h] = []string{"none", "basic", "refresh", "both"}[rnd.Intn(4)]
	p := rnd.Perm(len(auRS))
	a, b := []string{auRS[p[0]]}, []string{auRS[p[1]]}
	grants := func(life int) []auTokAns {
		var out []auTokAns
		for i := 0; i < 5; i++ {
			out = append(out, auTokAns{Kind: "grant", Life: life, Var: rnd.Intn(1000), NewRT: rnd.Intn(6) == 0})
		}
		return out
	}
	call := func(req []string, life int, firstOK bool) auCall {
		c := auCall{H: h, Req: req, Want: []string{}, Form: rnd.Intn(5), Body: []string{"none", "none", "plain", "getbody"}[rnd.Intn(4)]}
		chal := auRegAns{Status: 401, Offers: []auOffer{{Scheme: "bearer", Realm: auRealms[rnd.Intn(len(auRealms))], Scope: append([]string{}, req...)}}}
		if firstOK {
			c.Reg = []auRegAns{{Status: 200}, {Status: 200}}
		} else {
			c.Reg = []auRegAns{chal, {Status: 200}}
		}
		c.Tok = grants(life)
		return c
	}
	long, short := 0, 2+2*rnd.Intn(2) // ticks: 60 s default | 1 s or 2 s
	t1 := rnd.Intn(2)
	t2 := t1 + short + rnd.Intn(3) // at or past the short token's expiry
	if rnd.Intn(3) == 0 {          // the first token lives 3 s: still good (more than 1 s left) up to tick 3
		long, short = 6, 2
		t2 = t1 + 2 + rnd.Intn(2-t1+1)
		if t2 > 3 {
			t2 = 3
		}
	}
	sc.Steps = append(sc.Steps, auStep{At: 0, Calls: []auCall{call(a, long, false)}})
	sc.Steps = append(sc.Steps, auStep{At: t1, Calls: []auCall{call(b, short, false)}})
	if rnd.Intn(3) == 0 && t2-t1 >= 2 { // in between, while the short token must still be reused (only when it has > 1 s left)
		sc.Steps = append(sc.Steps, auStep{At: t1 + rnd.Intn(2), Calls: []auCall{call(b, short, rnd.Intn(2) == 0)}})
	}
	sc.Steps = append(sc.Steps, auStep{At: t2, Calls: []auCall{call(b, 2*rnd.Intn(3), rnd.Intn(3) != 0)}})
	if t2 < maxTick && rnd.Intn(2) == 0 {
		sc.Steps = append(sc.Steps, auStep{At: t2 + rnd.Intn(2), Calls: []auCall{call(a, 0, true)}})
	}
	return sc
}

// auNilHdrAny (-nilhdr): hand-built requests with a nil Header also in ordinary scenarios, where the
// transport has credentials to add (the unchanged tree panics there; see auShapeScen).
var auNilHdrAny bool

// auShapeScen: calls with hand-built requests whose Header is nil.  The unchanged transport panics on such a
// request as soon as it has an Authorization header to add (assignment to entry in nil map), so these
// scenarios are scripted so that it never has one: no static token, and no registry answer carries a
// challenge the host's configuration could answer.
func auShapeScen(rnd *rand.Rand) auScen {
	sc := auScen{Cfg: map[string]string{}, Src: "rand-shapes"}
	for _, h := range auHosts {
		sc.Cfg[h] = []string{"none", "none", "basic", "cfgerr"}[rnd.Intn(4)]
	}
	n := 2 + rnd.Intn(4)
	for i := 0; i < n; i++ {
		h := auHosts[rnd.Intn(len(auHosts))]
		c := auCall{H: h, Req: auSubset(rnd, 2), Want: auSubset(rnd, 1), Form: rnd.Intn(5), HostHdr: auHostHdr(rnd),
			Body: []string{"none", "none", "plain", "getbody"}[rnd.Intn(4)], Shape: []int{1, 1, 1, 2, 3, 0}[rnd.Intn(6)]}
		first := auRegAns{Status: []int{200, 200, 403, 404, -1}[rnd.Intn(5)]}
		if rnd.Intn(2) == 0 {
			first = auRegAns{Status: 401, Offers: [][]auOffer{{}, {{Scheme: "other", Realm: "-"}}, {{Scheme: "bad", Realm: "-"}},
				{{Scheme: "bad", Realm: "-"}, {Scheme: "other", Realm: "-"}}}[rnd.Intn(4)]}
			if sc.Cfg[h] == "none" && rnd.Intn(3) == 0 { // a Basic challenge nobody can answer
				first.Offers = []auOffer{{Scheme: "basic", Realm: "-"}}
			}
		}
		c.Reg = []auRegAns{first, {Status: 200}}
		c.Tok = []auTokAns{}
		sc.Steps = append(sc.Steps, auStep{At: 0, Calls: []auCall{c}})
	}
	return sc
}

// auLockWaitScen: a short-lived token T for {b} is cached; then call A (required scope {a}, not covered)
// starts a token acquisition that the token server answers only after T has expired - auth.go holds the
// host's lock all that time - and call B (required scope {b}) enters RoundTrip while T still has more than
// a second left and gets the lock only after T's expiry.
func auLockWaitScen(rnd *rand.Rand, maxTick int) auScen {
	sc := auScen{Cfg: map[string]string{}, Timed: true, Src: "rand-lockwait"}
	for _, h := range auHosts {
		sc.Cfg[h] = auKinds[rnd.Intn(5)]
	}
	h := auHosts[rnd.Intn(len(auHosts))]
	sc.Cfg[h] = []string{"none", "basic", "refresh", "both"}[rnd.Intn(4)]
	p := rnd.Perm(len(auRS))
	a, b := []string{auRS[p[0]]}, []string{auRS[p[1]]}
	realm := auRealms[rnd.Intn(len(auRealms))]
	call := func(req []string, lives []int, delay int, firstOK bool) auCall {
		c := auCall{H: h, Req: req, Want: []string{}, Form: rnd.Intn(5), Body: []string{"none", "none", "plain", "getbody"}[rnd.Intn(4)]}
		chal := auRegAns{Status: 401, Offers: []auOffer{{Scheme: "bearer", Realm: realm, Scope: append([]string{}, req...)}}}
		if firstOK {
			c.Reg = []auRegAns{{Status: 200}, {Status: 200}}
		} else {
			c.Reg = []auRegAns{chal, {Status: 200}}
		}
		for i := 0; i < 4; i++ {
			t := auTokAns{Kind: "grant", Life: lives[i%len(lives)], Var: rnd.Intn(1000)}
			if i == 0 {
				t.Delay = delay
			}
			c.Tok = append(c.Tok, t)
		}
		return c
	}
	life := 4 + 2*rnd.Intn(2) // T lives 2 s or 3 s
	t1 := rnd.Intn(2)         // B enters with at least 1.5 s of T left
	due := life + rnd.Intn(2) // the delayed answer comes at or after T's expiry
	if due > maxTick {
		due = maxTick
	}
	sc.Steps = append(sc.Steps, auStep{At: 0, Calls: []auCall{call(b, []int{life}, 0, false)}})
	sc.Steps = append(sc.Steps, auStep{At: t1, Stagger: true, Calls: []auCall{
		call(a, []int{0}, due-t1, false),
		call(b, []int{0, 2}, 0, rnd.Intn(2) == 0)}})
	if due < maxTick && rnd.Intn(2) == 0 {
		sc.Steps = append(sc.Steps, auStep{At: due + rnd.Intn(2), Calls: []auCall{call(b, []int{0}, 0, true)}})
	}
	return sc
}

// ---------------------------------------------------------------- TLC walks -> scenarios

type auWalkOp struct {
	Op     string    `json:"op"` // call | reg | tok
	H      string    `json:"h"`
	Req    []string  `json:"req"`
	Want   []string  `json:"want"`
	Body   string    `json:"body"`
	At     int       `json:"at"`
	Status int       `json:"status"`
	Offers []auOffer `json:"offers"`
	Kind   string    `json:"kind"`
	Life   int       `json:"life"`
	NewRT  bool      `json:"newrt"`
}

type auWalk struct {
	Mode string            `json:"mode"`
	Cfg  map[string]string `json:"cfg"`
	Ops  []auWalkOp        `json:"ops"`
}

func auFromWalk(w auWalk, rnd *rand.Rand) auScen {
	sc := auScen{Cfg: w.Cfg, Src: "tlc"}
	if w.Mode == "shaped" {
		sc.Src = "tlc-expiry"
	}
	for _, o := range w.Ops {
		switch o.Op {
		case "call":
			sort.Strings(o.Req)
			sort.Strings(o.Want)
			sc.Steps = append(sc.Steps, auStep{At: o.At, Calls: []auCall{{H: o.H, Req: o.Req, Want: o.Want, Body: o.Body, Form: rnd.Intn(5), HostHdr: auHostHdr(rnd), Shape: []int{0, 0, 0, 2, 3}[rnd.Intn(5)]}}})
			if o.At > 0 {
				sc.Timed = true
			}
		case "reg":
			if n := len(sc.Steps); n > 0 {
				c := &sc.Steps[n-1].Calls[0]
				c.Reg = append(c.Reg, auRegAns{Status: o.Status, Offers: o.Offers})
			}
		case "tok":
			if n := len(sc.Steps); n > 0 {
				c := &sc.Steps[n-1].Calls[0]
				c.Tok = append(c.Tok, auTokAns{Kind: o.Kind, Life: o.Life, NewRT: o.NewRT, Var: rnd.Intn(1000)})
				if o.Life != 0 {
					sc.Timed = true
				}
			}
		}
	}
	return sc
}

// ---------------------------------------------------------------- running one scenario

type auBody struct {
	r      *strings.Reader
	mu     sync.Mutex
	closes int
}

func (b *auBody) Read(p []byte) (int, error) { return b.r.Read(p) }
func (b *auBody) Close() error {
	b.mu.Lock()
	b.closes++
	b.mu.Unlock()
	return nil
}

type auSlotKey struct{}

// auCallState is what the scripted RoundTripper knows about one call in progress.
type auCallState struct {
	batch     bool // started together with other calls: message halves are spread out a little
	slot      int
	call      *auCall
	at        int
	regN      int
	tokN      int
	lastTexts []string // scope texts of the Bearer offers in the last 401 given to this call
}

type auRun struct {
	realms    map[string][]string // realm key (host|path|account) of every realm the scenario's challenges mean -> services
	rev       map[string]string   // URL host -> abstract id
	sc        *auScen
	mu        sync.Mutex
	events    []auEv
	start     time.Time
	bucket    int
	jitter    bool
	tokN      int
	rtN       int
	planned   int           // tick of the step in progress
	planned2  int           // tick at which a delayed token answer of the step is due (-1: none)
	inTok     chan struct{} // closed when a delayed token request has arrived
	inTokOnce sync.Once
}

// abstract: the id of the registry a URL host names (anything else is logged as it is)
func (r *auRun) abstract(host string) string {
	if id, ok := r.rev[host]; ok {
		return id
	}
	return host
}

func (r *auRun) concrete(id string) string {
	if h, ok := r.sc.Names[id]; ok {
		return h
	}
	return id
}

func (r *auRun) now() (ms int, bucket int) {
	if !r.sc.Timed {
		return 0, 0
	}
	ms = int(time.Since(r.start) / time.Millisecond)
	return ms, ms / auTickMs
}

// log appends an event (caller holds r.mu); inStep: the event belongs to the step in progress.
func (r *auRun) log(e auEv, inStep bool) {
	ms, b := r.now()
	if r.sc.Timed {
		if b > r.bucket {
			r.events = append(r.events, auEv{"op": "tick", "t": b})
			r.bucket = b
		}
		if inStep {
			off := ms - b*auTickMs
			if (b != r.planned && b != r.planned2) || off < auSafeLo || off > auSafeHi {
				r.jitter = true
			}
		}
	}
	e["ms"] = ms
	r.events = append(r.events, e)
}

type auConfig struct{ r *auRun }

func (c auConfig) EntryForRegistry(host string) (ociauth.ConfigEntry, error) {
	r := c.r
	r.mu.Lock()
	defer r.mu.Unlock()
	host = r.abstract(host)
	kind := r.sc.Cfg[host]
	ev := auEv{"op": "cfglookup", "h": host, "rt": 0}
	var e ociauth.ConfigEntry
	var err error
	switch kind {
	case "basic":
		e = ociauth.ConfigEntry{Username: "user-" + host, Password: "pw-" + host}
	case "refresh", "both":
		r.rtN++
		ev["rt"] = r.rtN
		e = ociauth.ConfigEntry{RefreshToken: "rt-" + strconv.Itoa(r.rtN)}
		if kind == "both" {
			e.Username, e.Password = "user-"+host, "pw-"+host
		}
	case "static":
		e = ociauth.ConfigEntry{AccessToken: "static-" + host}
	case "cfgerr":
		err = errors.New("scripted configuration failure")
	}
	r.log(ev, true)
	return e, err
}

// auCred classifies what a request carries.
func auCred(req *http.Request, form url.Values) auEv {
	none := auEv{"k": "none", "id": 0, "h": "-"}
	auth := req.Header.Get("Authorization")
	var c auEv
	switch {
	case auth == "":
		c = none
	case strings.HasPrefix(auth, "Bearer static-"):
		c = auEv{"k": "static", "id": 0, "h": strings.TrimPrefix(auth, "Bearer static-")}
	case strings.HasPrefix(auth, "Bearer rt-"): // a refresh token presented as a bearer token
		id, err := strconv.Atoi(strings.TrimPrefix(auth, "Bearer rt-"))
		if err != nil {
			id = 0
		}
		c = auEv{"k": "refresh", "id": id, "h": "-"}
	case strings.HasPrefix(auth, "Bearer at-"):
		id, err := strconv.Atoi(strings.TrimPrefix(auth, "Bearer at-"))
		if err != nil {
			id = 0
		}
		c = auEv{"k": "bearer", "id": id, "h": "-"}
	case strings.HasPrefix(auth, "Basic "):
		dec, _ := base64.StdEncoding.DecodeString(strings.TrimPrefix(auth, "Basic "))
		up := strings.SplitN(string(dec), ":", 2)
		h := "?"
		if len(up) == 2 && strings.HasPrefix(up[0], "user-") && up[1] == "pw-"+strings.TrimPrefix(up[0], "user-") {
			h = strings.TrimPrefix(up[0], "user-")
		}
		c = auEv{"k": "basic", "id": 0, "h": h}
		if len(up) == 2 && (strings.HasPrefix(up[0], "rt-") || strings.HasPrefix(up[1], "rt-")) { // a refresh token inside Basic
			id, err := strconv.Atoi(strings.TrimPrefix(strings.TrimPrefix(up[1], "rt-"), up[0]))
			if err != nil {
				id = 0
			}
			c = auEv{"k": "refresh", "id": id, "h": "-"}
		}
	default:
		c = auEv{"k": "unknown", "id": 0, "h": "-"}
	}
	if form != nil {
		if rt := form.Get("refresh_token"); rt != "" {
			if c["k"] != "none" {
				return auEv{"k": "multi", "id": 0, "h": "-"}
			}
			id, err := strconv.Atoi(strings.TrimPrefix(rt, "rt-"))
			if err != nil {
				id = 0
			}
			return auEv{"k": "refresh", "id": id, "h": "-"}
		}
	}
	return c
}

type auTransport struct{ r *auRun }

func auResp(req *http.Request, status int, hdr http.Header, body string) *http.Response {
	if hdr == nil {
		hdr = http.Header{}
	}
	return &http.Response{StatusCode: status, Status: strconv.Itoa(status) + " " + http.StatusText(status), Proto: "HTTP/1.1", ProtoMajor: 1, ProtoMinor: 1,
		Header: hdr, Body: io.NopCloser(strings.NewReader(body)), ContentLength: int64(len(body)), Request: req}
}

func (t auTransport) RoundTrip(req *http.Request) (*http.Response, error) {
	r := t.r
	// a well-behaved transport consumes and closes the body, also when it fails
	var bodyData []byte
	if req.Body != nil {
		bodyData, _ = io.ReadAll(req.Body)
		req.Body.Close()
	}
	if (req.URL.Scheme != "http" && req.URL.Scheme != "https") || req.URL.Host == "" {
		// nothing a transport could put on the wire
		return nil, fmt.Errorf("unsupported protocol scheme %q", req.URL.Scheme)
	}
	cs, _ := req.Context().Value(auSlotKey{}).(*auCallState)
	if cs != nil && cs.batch {
		// let the calls of a batch interleave: a short pause that differs between slots and messages
		time.Sleep(time.Duration(((cs.slot*7+cs.regN*3+cs.tokN*5)%4)*150) * time.Microsecond)
	}
	r.mu.Lock()
	defer r.mu.Unlock()
	slot := 0
	if cs != nil {
		slot = cs.slot
	}
	host := r.abstract(req.URL.Host)
	if strings.HasPrefix(req.URL.Path, "/token") || strings.Contains(req.Header.Get("Content-Type"), "x-www-form-urlencoded") {
		var form url.Values
		raw := ""
		if req.Method == "POST" {
			form, _ = url.ParseQuery(string(bodyData))
			raw = form.Get("scope")
		} else {
			raw = strings.Join(req.URL.Query()["scope"], " ")
		}
		kept := false
		if cs != nil {
			for _, tx := range cs.lastTexts {
				if tx == raw {
					kept = true
				}
			}
		}
		// where the request really goes: the realm host if host, path and account are exactly those of a realm
		// some challenge of the scenario meant; otherwise the URL as it is.  svcok: the service value asked
		// with is the one that challenge meant.
		service := req.URL.Query().Get("service")
		if form != nil {
			service = form.Get("service")
		}
		svcs, known := r.realms[req.URL.Host+"|"+req.URL.Path+"|"+req.URL.Query().Get("account")]
		svcok := false
		for _, sv := range svcs {
			if sv == service {
				svcok = true
			}
		}
		if !known {
			host = req.URL.String()
		}
		r.log(auEv{"op": "tokreq", "c": slot, "to": host, "svcok": svcok, "service": service, "path": req.URL.Path, "method": req.Method, "cred": auCred(req, form), "scope": auTokenise(raw), "kept": kept, "text": raw}, true)
		ans := auTokAns{Kind: "other", Var: 0}
		if cs != nil && cs.tokN < len(cs.call.Tok) {
			ans = cs.call.Tok[cs.tokN]
			cs.tokN++
		}
		if ans.Delay > 0 && cs != nil {
			// a slow token server: the answer is given in the middle of tick at+Delay; meanwhile the code under
			// test keeps whatever it holds, and the other call of a staggered batch is let in
			r.planned2 = cs.at + ans.Delay
			r.inTokOnce.Do(func() { close(r.inTok) })
			if r.sc.Timed {
				target := r.start.Add(time.Duration((cs.at+ans.Delay)*auTickMs+auTickMs/2) * time.Millisecond)
				r.mu.Unlock()
				if d := time.Until(target); d > 0 {
					time.Sleep(d)
				}
				r.mu.Lock()
			}
		}
		ev := auEv{"op": "tokresp", "c": slot, "kind": ans.Kind, "life": ans.Life, "rt": 0, "id": 0, "delay": ans.Delay}
		var resp *http.Response
		var err error
		switch ans.Kind {
		case "grant", "notoken":
			m := map[string]any{}
			if ans.Kind == "grant" {
				r.tokN++
				ev["id"] = r.tokN
				tok := "at-" + strconv.Itoa(r.tokN)
				switch ans.Var % 3 {
				case 0:
					m["token"] = tok
				case 1:
					m["access_token"] = tok
				default:
					m["token"], m["access_token"] = tok, tok
				}
				if ans.Life > 0 {
					m["expires_in"] = ans.Life / 2
				} else if ans.Var%2 == 0 {
					m["expires_in"] = 0
				}
				if ans.Var%5 == 0 {
					m["issued_at"] = "2020-01-01T00:00:00Z"
				}
			}
			if ans.NewRT {
				r.rtN++
				ev["rt"] = r.rtN
				m["refresh_token"] = "rt-" + strconv.Itoa(r.rtN)
			}
			data, _ := json.Marshal(m)
			resp = auResp(req, 200, http.Header{"Content-Type": {"application/json"}}, string(data))
		case "e401":
			resp = auResp(req, 401, http.Header{"Content-Type": {"application/json"}}, `{"errors":[{"code":"UNAUTHORIZED","message":"requested scope not allowed"}]}`)
		case "e404":
			resp = auResp(req, 404, nil, "404 page not found\n")
		default:
			switch ans.Var % 6 {
			case 0:
				resp = auResp(req, 500, nil, "boom")
			case 1:
				resp = auResp(req, 403, http.Header{"Content-Type": {"application/json"}}, `{"errors":[{"code":"DENIED","message":"no"}]}`)
			case 2:
				resp = auResp(req, 200, nil, `{"token": "at-`)
			case 3:
				resp = auResp(req, 400, nil, "")
			case 4:
				resp = auResp(req, 200, nil, `["not", "an", "object"]`)
			default:
				err = errors.New("scripted token-server connection failure")
			}
		}
		r.log(ev, true)
		return resp, err
	}
	r.log(auEv{"op": "regreq", "c": slot, "to": host, "cred": auCred(req, nil), "method": req.Method, "urlhost": req.URL.Host}, true)
	ans := auRegAns{Status: 200}
	if cs != nil && cs.regN < len(cs.call.Reg) {
		ans = cs.call.Reg[cs.regN]
		cs.regN++
	}
	offers := []auEv{}
	hdr := http.Header{}
	if ans.Status == 401 {
		texts := []string{}
		for i, o := range ans.Offers {
			offers = append(offers, auEv{"scheme": o.Scheme, "realm": o.Realm, "scope": o.Scope})
			hdr.Add("Www-Authenticate", ans.Hdrs[i])
			if o.Scheme == "bearer" {
				texts = append(texts, ans.Texts[i])
			}
		}
		if cs != nil {
			cs.lastTexts = texts
		}
	}
	r.log(auEv{"op": "regresp", "c": slot, "status": ans.Status, "offers": offers, "hdrs": append([]string{}, hdr["Www-Authenticate"]...)}, true)
	if ans.Status == -1 {
		return nil, errors.New("scripted registry connection failure")
	}
	body := "{}"
	if ans.Status >= 400 {
		hdr.Set("Content-Type", "application/json")
		body = `{"errors":[{"code":"UNAUTHORIZED","message":"authentication required"}]}`
	}
	return auResp(req, ans.Status, hdr, body), nil
}

func auScope(names []string, form int) ociauth.Scope {
	return ociauth.ParseScope(auScopeText(names, form))
}

// auSnap is a deep snapshot of everything observable on the caller's request.
type auSnap struct {
	url, method, host, proto string
	hdrNil, trailerNil       bool
	hdr, trailer, sibling    http.Header
	body                     io.ReadCloser
	bodyCloses               int
	hasGetBody, close        bool
	formNil, postFormNil     bool
	mpNil, tlsNil, respNil   bool
	clen                     int64
	te                       string
	ctx                      context.Context
	urlPtr                   *url.URL
}

func auBodyCloses(b io.ReadCloser) int {
	if ab, ok := b.(*auBody); ok {
		ab.mu.Lock()
		defer ab.mu.Unlock()
		return ab.closes
	}
	return 0
}

// sib: another request of the caller's that shares the Header map (nil: none)
func auSnapshot(q *http.Request, sib *http.Request) auSnap {
	a := auSnap{url: q.URL.String(), urlPtr: q.URL, method: q.Method, host: q.Host, proto: q.Proto, hdrNil: q.Header == nil, hdr: q.Header.Clone(),
		trailerNil: q.Trailer == nil, trailer: q.Trailer.Clone(), body: q.Body, bodyCloses: auBodyCloses(q.Body), hasGetBody: q.GetBody != nil,
		close: q.Close, formNil: q.Form == nil, postFormNil: q.PostForm == nil, mpNil: q.MultipartForm == nil, tlsNil: q.TLS == nil,
		respNil: q.Response == nil, clen: q.ContentLength, te: strings.Join(q.TransferEncoding, ","), ctx: q.Context()}
	if sib != nil {
		a.sibling = sib.Header.Clone()
	}
	return a
}

func auSameHeader(a, b http.Header) bool {
	if len(a) != len(b) {
		return false
	}
	for k, v := range a {
		w, ok := b[k]
		if !ok || len(v) != len(w) || (v == nil) != (w == nil) {
			return false
		}
		for i := range v {
			if v[i] != w[i] {
				return false
			}
		}
	}
	return true
}

// same compares the caller's request after RoundTrip with the snapshot, field by field (nil-ness included).
// The body is the one field RoundTrip may use: it must still be the same object.
func (a auSnap) same(q *http.Request, sib *http.Request) map[string]bool {
	m := map[string]bool{
		"method": q.Method == a.method, "url": q.URL == a.urlPtr && q.URL.String() == a.url, "host": q.Host == a.host, "proto": q.Proto == a.proto,
		"hdrnil": (q.Header == nil) == a.hdrNil, "hdr": auSameHeader(a.hdr, q.Header),
		"trailernil": (q.Trailer == nil) == a.trailerNil, "trailer": auSameHeader(a.trailer, q.Trailer),
		"body": q.Body == a.body, "getbody": (q.GetBody != nil) == a.hasGetBody, "clen": q.ContentLength == a.clen, "close": q.Close == a.close,
		"form": (q.Form == nil) == a.formNil, "postform": (q.PostForm == nil) == a.postFormNil, "multipart": (q.MultipartForm == nil) == a.mpNil,
		"tls": (q.TLS == nil) == a.tlsNil, "response": (q.Response == nil) == a.respNil, "te": strings.Join(q.TransferEncoding, ",") == a.te,
		"ctx": q.Context() == a.ctx, "sibling": true,
	}
	if sib != nil {
		m["sibling"] = auSameHeader(a.sibling, sib.Header)
	}
	return m
}

// doCall makes one call through the transport under test.
func (r *auRun) doCall(tr http.RoundTripper, slot int, call *auCall, at int, begun *sync.WaitGroup) {
	cs := &auCallState{slot: slot, call: call, at: at, batch: begun != nil}
	ctx := context.WithValue(context.Background(), auSlotKey{}, cs)
	ctx = ociauth.ContextWithRequestInfo(ctx, ociauth.RequestInfo{RequiredScope: auScope(call.Req, call.Form)})
	if len(call.Want) > 0 {
		ctx = ociauth.ContextWithScope(ctx, auScope(call.Want, call.Form+1))
	}
	var bodies []*auBody
	var bmu sync.Mutex
	newBody := func() *auBody {
		b := &auBody{r: strings.NewReader("request body of slot " + strconv.Itoa(slot))}
		bmu.Lock()
		bodies = append(bodies, b)
		bmu.Unlock()
		return b
	}
	// the HTTP method varies with the call (the flow must not depend on it): body-less calls are
	// GET / HEAD / DELETE, calls with a body PUT / POST / PATCH
	method := []string{"GET", "HEAD", "GET", "DELETE", "HEAD"}[call.Form%5]
	var body io.ReadCloser
	if call.Body != "none" {
		method = []string{"PUT", "POST", "PATCH", "PUT", "POST"}[call.Form%5]
		body = newBody()
	}
	target := "http://" + r.concrete(call.H) + "/v2/a/manifests/latest"
	var hreq, sibling *http.Request
	switch call.Shape {
	case 1, 2:
		u, err := url.Parse(target)
		if err != nil {
			panic(err)
		}
		hreq = (&http.Request{Method: method, URL: u}).WithContext(ctx)
		if body != nil {
			hreq.Body = body
			hreq.ContentLength = -1
		}
		if call.Shape == 2 {
			shared := http.Header{"X-Trace": {"one", "two"}, "x-lower": {"kept as written"}, "Cookie": {"a=b"}}
			hreq.Header = shared
			sibling = &http.Request{Method: "GET", URL: u, Header: shared}
		}
	default:
		var err error
		hreq, err = http.NewRequestWithContext(ctx, method, target, body)
		if err != nil {
			panic(err)
		}
		if call.Shape == 3 {
			if body == nil {
				hreq.Body = http.NoBody
			} else {
				hreq.ContentLength = -1
			}
			hreq.Close = true
			hreq.Trailer = http.Header{"X-Checksum": nil}
		}
	}
	switch call.HostHdr {
	case "other":
		for _, id := range auHosts {
			if id != call.H {
				hreq.Host = r.concrete(id)
			}
		}
	case "unconf":
		hreq.Host = "elsewhere.example:5000"
	}
	if hreq.Header != nil {
		hreq.Header.Set("Accept", "application/vnd.oci.image.manifest.v1+json")
		hreq.Header.Set("User-Agent", "verif-harness")
	}
	if call.Body == "getbody" {
		hreq.GetBody = func() (io.ReadCloser, error) { return newBody(), nil }
	} else {
		hreq.GetBody = nil
	}
	snap := auSnapshot(hreq, sibling)
	r.mu.Lock()
	r.log(auEv{"op": "begin", "c": slot, "h": call.H, "req": call.Req, "want": call.Want, "body": call.Body, "hosthdr": hreq.Host, "urlhost": hreq.URL.Host, "shape": call.Shape}, true)
	r.mu.Unlock()
	if begun != nil { // every call of the batch has begun before any of them proceeds
		begun.Done()
		begun.Wait()
	}
	status := -1
	var panicked any
	func() {
		defer func() { panicked = recover() }()
		resp, err := tr.RoundTrip(hreq)
		if err == nil && resp != nil {
			status = resp.StatusCode
			if resp.Body != nil {
				io.Copy(io.Discard, resp.Body)
				resp.Body.Close()
			}
		}
	}()
	r.mu.Lock()
	defer r.mu.Unlock()
	if panicked != nil {
		r.log(auEv{"op": "panic", "c": slot, "panic": fmt.Sprint(panicked)}, true)
		return
	}
	unclosed := 0
	bmu.Lock()
	for _, b := range bodies {
		b.mu.Lock()
		if b.closes == 0 {
			unclosed++
		}
		b.mu.Unlock()
	}
	nb := len(bodies)
	bmu.Unlock()
	r.log(auEv{"op": "end", "c": slot, "status": status, "same": snap.same(hreq, sibling), "unclosed": unclosed, "bodies": nb}, true)
}

// runScen executes a scenario once; ok=false: timing was outside the safe zone (timed scenarios only).
func auRunScen(sc *auScen) (events []auEv, ok bool) {
	r := &auRun{sc: sc, rev: map[string]string{}, realms: map[string][]string{}}
	for _, st := range sc.Steps {
		for _, c := range st.Calls {
			for _, a := range c.Reg {
				for i, ru := range a.Realms {
					if u, err := url.Parse(ru); ru != "" && err == nil {
						k := u.Host + "|" + u.Path + "|" + u.Query().Get("account")
						r.realms[k] = append(r.realms[k], a.Svcs[i])
					}
				}
			}
		}
	}
	for id, h := range sc.Names {
		r.rev[h] = id
	}
	tr := ociauth.NewStdTransport(ociauth.StdTransportParams{Config: auConfig{r}, Transport: auTransport{r}})
	r.start = time.Now()
	for si := range sc.Steps {
		st := &sc.Steps[si]
		if sc.Timed {
			target := r.start.Add(time.Duration(st.At*auTickMs+auTickMs/2) * time.Millisecond)
			if d := time.Until(target); d > 0 {
				time.Sleep(d)
			}
		}
		r.mu.Lock()
		r.planned, r.planned2 = st.At, -1
		r.inTok, r.inTokOnce = make(chan struct{}), sync.Once{}
		r.mu.Unlock()
		if st.Stagger && len(st.Calls) == 2 {
			var wg sync.WaitGroup
			wg.Add(2)
			go func() {
				defer wg.Done()
				r.doCall(tr, 1, &st.Calls[0], st.At, nil)
			}()
			go func() {
				defer wg.Done()
				select { // (if the first call never makes the delayed token request the second one starts anyway)
				case <-r.inTok:
				case <-time.After(150 * time.Millisecond):
				}
				r.doCall(tr, 2, &st.Calls[1], st.At, nil)
			}()
			wg.Wait()
		} else if len(st.Calls) == 1 {
			r.doCall(tr, 1, &st.Calls[0], st.At, nil)
		} else {
			var wg, begun sync.WaitGroup
			begun.Add(len(st.Calls))
			for ci := range st.Calls {
				wg.Add(1)
				go func(ci int) {
					defer wg.Done()
					r.doCall(tr, ci+1, &st.Calls[ci], st.At, &begun)
				}(ci)
			}
			wg.Wait()
		}
		r.mu.Lock()
		j := r.jitter
		r.mu.Unlock()
		if j {
			return nil, false
		}
	}
	return r.events, true
}

// ---------------------------------------------------------------- command

func authCmd(args []string) error {
	fs := flag.NewFlagSet("auth", flag.ExitOnError)
	seed := fs.Int64("seed", 1, "seed")
	n := fs.Int("n", 0, "seeded-random untimed scenarios")
	nt := fs.Int("ntimed", 0, "seeded-random timed scenarios (real time)")
	maxTick := fs.Int("maxtick", 10, "last tick of a timed scenario")
	out := fs.String("out", "", "trace file")
	scenFile := fs.String("scen", "", "TLC walks (one JSON value per line)")
	replay := fs.String("replay", "", "replay file: re-execute its scenarios")
	retries := fs.Int("retries", 3, "runs of a timed scenario whose timing left the safe zone")
	par := fs.Int("par", 8, "untimed scenarios in progress together")
	fs.BoolVar(&auNilHdrAny, "nilhdr", false, "nil-Header requests also where the transport adds credentials")
	fs.Parse(args)
	if *out == "" {
		return errors.New("-out required")
	}
	var scens []auScen
	if *replay != "" {
		f, err := os.Open(*replay)
		if err != nil {
			return err
		}
		sc := bufio.NewScanner(f)
		sc.Buffer(make([]byte, 1<<20), 1<<26)
		for sc.Scan() {
			var e struct {
				Op     string `json:"op"`
				Script string `json:"script"`
			}
			if json.Unmarshal(sc.Bytes(), &e) == nil && e.Op == "reset" {
				var s auScen
				if err := json.Unmarshal([]byte(e.Script), &s); err != nil {
					return fmt.Errorf("replay file: %v", err)
				}
				scens = append(scens, s)
			}
		}
		f.Close()
	} else {
		if *scenFile != "" {
			f, err := os.Open(*scenFile)
			if err != nil {
				return err
			}
			sc := bufio.NewScanner(f)
			sc.Buffer(make([]byte, 1<<20), 1<<26)
			i := 0
			for sc.Scan() {
				var w auWalk
				if err := json.Unmarshal(sc.Bytes(), &w); err != nil {
					return fmt.Errorf("%s: %v", *scenFile, err)
				}
				rnd := rand.New(rand.NewSource(*seed*1000003 + int64(i)))
				s := auFromWalk(w, rnd)
				auConcretise(&s, rnd)
				if len(s.Steps) > 0 {
					scens = append(scens, s)
				}
				i++
			}
			f.Close()
		}
		for i := 0; i < *n+*nt; i++ {
			rnd := rand.New(rand.NewSource(*seed*7919 + int64(i)*104729 + 17))
			var s auScen
			if i >= *n && (i-*n)%4 == 1 {
				s = auExpiryScen(rnd, *maxTick)
			} else if i >= *n && (i-*n)%4 == 3 {
				s = auLockWaitScen(rnd, *maxTick)
			} else if i < *n && i%6 == 5 {
				s = auShapeScen(rnd)
			} else {
				s = auRandScen(rnd, i >= *n, *maxTick, true)
			}
			auConcretise(&s, rnd)
			scens = append(scens, s)
		}
	}
	t0 := time.Now()
	results := make([][]auEv, len(scens))
	dropped := make([]bool, len(scens))
	reruns := 0
	var rmu sync.Mutex
	var wg sync.WaitGroup
	sem := make(chan struct{}, *par)
	for i := range scens {
		wg.Add(1)
		go func(i int) {
			defer wg.Done()
			sc := &scens[i]
			if !sc.Timed {
				sem <- struct{}{}
				defer func() { <-sem }()
			}
			for a := 0; a <= *retries; a++ {
				ev, ok := auRunScen(sc)
				if ok {
					results[i] = ev
					return
				}
				rmu.Lock()
				reruns++
				rmu.Unlock()
			}
			dropped[i] = true
		}(i)
	}
	wg.Wait()
	f, err := os.Create(*out)
	if err != nil {
		return err
	}
	w := bufio.NewWriter(f)
	enc := json.NewEncoder(w)
	enc.SetEscapeHTML(false)
	enc.Encode(auEv{"op": "header", "hosts": auHosts, "realms": auRealms, "rs": auRS, "slots": 2, "tps": 2})
	nev, ndrop, ntimed := 0, 0, 0
	for i := range scens {
		if scens[i].Timed {
			ntimed++
		}
		if dropped[i] {
			ndrop++
			continue
		}
		script, _ := json.Marshal(scens[i])
		cfg := map[string]string{}
		for _, h := range auHosts {
			cfg[h] = "none"
			if k, ok := scens[i].Cfg[h]; ok {
				cfg[h] = k
			}
		}
		enc.Encode(auEv{"op": "reset", "id": i, "cfg": cfg, "timed": scens[i].Timed, "src": scens[i].Src, "names": scens[i].Names, "script": string(script)})
		for _, e := range results[i] {
			enc.Encode(e)
			nev++
		}
	}
	if err := w.Flush(); err != nil {
		return err
	}
	f.Close()
	sum, _ := json.Marshal(auEv{"scenarios": len(scens) - ndrop, "timed": ntimed, "dropped": ndrop, "reruns": reruns, "events": nev, "wall_ms": int(time.Since(t0) / time.Millisecond)})
	fmt.Println(string(sum))
	return nil
}
