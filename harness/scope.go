package main

// Command `scope` (property C09, specification family OciScope): executes small straight-line
// programs over ociauth.Scope values on the real code and records, for every value built, what
// the exported API shows of it, and for every pair of values / every probe what Contains,
// Equal and Holds answer.  There is no oracle logic here: inputs are concretised (a field
// structure is rendered to a scope string, index lists of a TLC case to triples), outputs are
// projected (iteration order as a list of triples, booleans, text).  TLC evaluates the set
// semantics of OciScope.tla on each event (OciScopeTrace.tla) and accepts or rejects it.
//
// The only derived data the specification consumes is the header: the byte order of all the
// strings used as inputs (TLC cannot compare strings) and their lexical class.

import (
	"bufio"
	"encoding/json"
	"flag"
	"fmt"
	"math/rand"
	"os"
	"sort"
	"strings"

	"cuelabs.dev/go/oci/ociregistry/ociauth"
)

func init() { commands["scope"] = scopeCmd }

type scField struct {
	Opaque bool     `json:"opaque"`
	W      string   `json:"w"`
	T      string   `json:"t"`
	R      string   `json:"r"`
	Acts   []string `json:"acts"`
}

// scWalk is one walk of an iterator value; all walks of a value use the SAME function value,
// obtained from one s.Iter() call.
type scWalk struct {
	M     int        `json:"m"`     // 0: the consumer takes everything; else it declines after its m-th item
	Got   [][]string `json:"got"`   // items delivered
	After int        `json:"after"` // calls made after the consumer declined
}

type scRT struct {
	Iter [][]string `json:"iter"` // ParseScope(s.String()) as iterated
	Eq   bool       `json:"eq"`   // ParseScope(s.String()).Equal(s)
	Text string     `json:"text"` // ParseScope(s.String()).String()
}

type scObs struct {
	Full  bool       `json:"full"` // false: the interrupted iteration and the print/parse round trip were not made
	Unl   bool       `json:"unl"`
	Empty bool       `json:"empty"`
	Len   int        `json:"len"` // -1: not called (documented to panic on the unlimited scope)
	Iter  [][]string `json:"iter"`
	Text  string     `json:"text"`
	Walks []scWalk   `json:"walks"` // full, interrupted after m, full again, interrupted after 1, full again
	RT    scRT       `json:"rt"`
}

// scDef is one definition of a program: value i is built from literals or earlier values.
type scDef struct {
	K      string     `json:"k"` // zero | new | parse | unl | union | canon
	Items  [][]string `json:"items"`
	Fields []scField  `json:"fields"`
	Seps   []string   `json:"seps"`
	Text   string     `json:"text"`
	X      int        `json:"x"`
	Y      int        `json:"y"`
	Obs    *scObs     `json:"obs,omitempty"`
	m      int        // replay: where the interrupted iteration stopped
}

type scProg struct {
	Slim   bool       `json:"slim"` // observe less of each value (the bulk of the ordered pairs)
	Src    string     `json:"src"`
	Defs   []scDef    `json:"defs"`
	Probes [][]string `json:"probes"`
}

type scEvent struct {
	Op       string     `json:"op"`
	Slim     bool       `json:"slim"`
	Src      string     `json:"src"`
	Defs     []scDef    `json:"defs"`
	Probes   [][]string `json:"probes"`
	Holds    [][]bool   `json:"holds"`
	Contains [][]bool   `json:"contains"`
	Equal    [][]bool   `json:"equal"`
}

func scTriple(rs ociauth.ResourceScope) []string {
	return []string{rs.ResourceType, rs.Resource, rs.Action}
}

func scRS(t []string) ociauth.ResourceScope {
	return ociauth.ResourceScope{ResourceType: t[0], Resource: t[1], Action: t[2]}
}

func scIter(s ociauth.Scope) [][]string {
	out := [][]string{}
	s.Iter()(func(rs ociauth.ResourceScope) bool {
		out = append(out, scTriple(rs))
		return true
	})
	return out
}

func scFieldText(f scField) string {
	if f.Opaque {
		return f.W
	}
	return f.T + ":" + f.R + ":" + strings.Join(f.Acts, ",")
}

func scRender(fields []scField, seps []string) string {
	var b strings.Builder
	for i, f := range fields {
		b.WriteString(seps[i])
		b.WriteString(scFieldText(f))
	}
	b.WriteString(seps[len(fields)])
	return b.String()
}

func scObserve(s ociauth.Scope, m int, full bool) *scObs {
	o := &scObs{Len: -1, Full: full}
	o.Unl = s.IsUnlimited()
	o.Empty = s.IsEmpty()
	if !o.Unl {
		o.Len = s.Len()
	}
	o.Iter = scIter(s)
	o.Text = s.String()
	o.Walks = []scWalk{}
	o.RT = scRT{Iter: [][]string{}}
	if !full {
		return o
	}
	it := s.Iter() // one iterator value, walked several times
	for _, k := range []int{0, m, 0, 1, 0} {
		w := scWalk{M: k, Got: [][]string{}}
		declined := false
		it(func(rs ociauth.ResourceScope) bool {
			if declined {
				w.After++
				return false
			}
			w.Got = append(w.Got, scTriple(rs))
			if k > 0 && len(w.Got) >= k {
				declined = true
				return false
			}
			return true
		})
		o.Walks = append(o.Walks, w)
	}
	back := ociauth.ParseScope(o.Text)
	o.RT = scRT{Iter: scIter(back), Eq: back.Equal(s), Text: back.String()}
	return o
}

// scExec runs one program on the real code.
func scExec(p scProg, rnd *rand.Rand) (ev interface{}) {
	defer func() {
		if r := recover(); r != nil {
			for i := range p.Defs {
				p.Defs[i].Obs = nil
			}
			ev = map[string]interface{}{"op": "panic", "slim": p.Slim, "src": p.Src, "defs": p.Defs, "probes": p.Probes, "msg": fmt.Sprint(r)}
		}
	}()
	vals := make([]ociauth.Scope, len(p.Defs))
	for i := range p.Defs {
		d := &p.Defs[i]
		switch d.K {
		case "zero":
			vals[i] = ociauth.Scope{}
		case "new":
			// The harness owns the argument slice (with spare capacity) and, as any caller may,
			// reuses it as soon as NewScope has returned: the scope must not live in it.
			rss := make([]ociauth.ResourceScope, len(d.Items), len(d.Items)+4)
			for j, t := range d.Items {
				rss[j] = scRS(t)
			}
			vals[i] = ociauth.NewScope(rss...)
			rss = rss[:cap(rss)]
			for j := range rss {
				rss[j] = ociauth.ResourceScope{ResourceType: "harness-reused-its-slice", Resource: fmt.Sprint(j), Action: "x"}
			}
		case "parse":
			d.Text = scRender(d.Fields, d.Seps)
			vals[i] = ociauth.ParseScope(d.Text)
		case "unl":
			vals[i] = ociauth.UnlimitedScope()
		case "union":
			vals[i] = vals[d.X-1].Union(vals[d.Y-1])
		case "canon":
			vals[i] = vals[d.X-1].Canonical()
		default:
			panic("harness: unknown definition kind " + d.K)
		}
	}
	e := scEvent{Op: "case", Slim: p.Slim, Src: p.Src, Defs: p.Defs, Probes: p.Probes}
	// observe only after everything is built: later operations must not disturb earlier values
	for i := range p.Defs {
		m := p.Defs[i].m
		if m == 0 {
			m = 1 + rnd.Intn(3)
		}
		p.Defs[i].Obs = scObserve(vals[i], m, !p.Slim)
	}
	for i := range vals {
		h := make([]bool, len(p.Probes))
		for j, t := range p.Probes {
			h[j] = vals[i].Holds(scRS(t))
		}
		e.Holds = append(e.Holds, h)
		c := make([]bool, len(vals))
		q := make([]bool, len(vals))
		for j := range vals {
			c[j] = vals[i].Contains(vals[j])
			q[j] = vals[i].Equal(vals[j])
		}
		e.Contains = append(e.Contains, c)
		e.Equal = append(e.Equal, q)
	}
	return e
}

// ---------------------------------------------------------------- header data

func scClass(s string) string {
	switch {
	case s == "":
		return "empty"
	case strings.ContainsAny(s, " \t\n\r\v\f"):
		return "dirty"
	case strings.Count(s, ":") == 2:
		return "dirty"
	case strings.Contains(s, ":"):
		return "word"
	case strings.Contains(s, ","):
		return "comma"
	}
	return "clean"
}

func scHeader(progs []scProg) map[string]interface{} {
	set := map[string]bool{"": true, "registry": true, "catalog": true, "*": true, "repository": true, "pull": true, "push": true}
	add := func(t []string) {
		for _, s := range t {
			set[s] = true
		}
	}
	for _, p := range progs {
		for _, t := range p.Probes {
			add(t)
		}
		for _, d := range p.Defs {
			for _, t := range d.Items {
				add(t)
			}
			for _, f := range d.Fields {
				add([]string{f.W, f.T, f.R})
				add(f.Acts)
			}
		}
	}
	strs := make([]string, 0, len(set))
	for s := range set {
		strs = append(strs, s)
	}
	sort.Strings(strs) // byte order, as strings.Compare
	cls := make([]string, len(strs))
	for i, s := range strs {
		cls[i] = scClass(s)
	}
	return map[string]interface{}{"op": "header", "strs": strs, "cls": cls}
}

// ------------------------------------------------------- concretising TLC cases

var scSeps = []string{" ", "  ", "\t", "\n", " \t ", "\n ", "   "}

func scSepsFor(rnd *rand.Rand, n int, plain bool) []string {
	seps := make([]string, n+1)
	for i := range seps {
		switch {
		case plain && (i == 0 || i == n):
			seps[i] = ""
		case plain:
			seps[i] = " "
		case (i == 0 || i == n) && rnd.Intn(2) == 0:
			seps[i] = ""
		default:
			seps[i] = scSeps[rnd.Intn(len(scSeps))]
		}
	}
	return seps
}

func scExpressible(t []string) bool {
	ok := func(s string, allowed ...string) bool {
		c := scClass(s)
		for _, a := range allowed {
			if c == a {
				return true
			}
		}
		return false
	}
	if t[1] == "" && t[2] == "" && ok(t[0], "clean", "comma", "word") {
		return true
	}
	return ok(t[0], "empty", "clean", "comma") && ok(t[1], "empty", "clean", "comma") && ok(t[2], "empty", "clean")
}

// scFields turns a list of (expressible) triples into a field structure: optionally grouping
// actions of the same type and resource into one field, in the order given.
func scFields(rnd *rand.Rand, items [][]string, group bool) []scField {
	fields := []scField{}
	for _, t := range items {
		if !scExpressible(t) {
			continue
		}
		if t[1] == "" && t[2] == "" {
			c := scClass(t[0])
			if c == "word" || (c != "empty" && rnd.Intn(4) != 0) {
				fields = append(fields, scField{Opaque: true, W: t[0], Acts: []string{}})
				continue
			}
		}
		if group {
			done := false
			for i := range fields {
				f := &fields[i]
				if !f.Opaque && f.T == t[0] && f.R == t[1] && rnd.Intn(5) != 0 {
					f.Acts = append(f.Acts, t[2])
					done = true
					break
				}
			}
			if done {
				continue
			}
		}
		fields = append(fields, scField{T: t[0], R: t[1], Acts: []string{t[2]}})
	}
	return fields
}

func scShuffled(rnd *rand.Rand, items [][]string, dups int) [][]string {
	out := append([][]string{}, items...)
	for i := 0; i < dups && len(items) > 0; i++ {
		out = append(out, items[rnd.Intn(len(items))])
	}
	rnd.Shuffle(len(out), func(i, j int) { out[i], out[j] = out[j], out[i] })
	return out
}

func scNewDef(items [][]string) scDef {
	if items == nil {
		items = [][]string{}
	}
	return scDef{K: "new", Items: items, Fields: []scField{}, Seps: []string{}}
}

func scParseDef(rnd *rand.Rand, items [][]string, group, plain bool) scDef {
	f := scFields(rnd, items, group)
	return scDef{K: "parse", Items: [][]string{}, Fields: f, Seps: scSepsFor(rnd, len(f), plain)}
}

func scRefDef(k string, x, y int) scDef {
	return scDef{K: k, Items: [][]string{}, Fields: []scField{}, Seps: []string{}, X: x, Y: y}
}

type scCase struct {
	Kind string     `json:"kind"`
	U    [][]string `json:"u"`
	A    []int      `json:"a"`
	AU   bool       `json:"au"`
	B    []int      `json:"b"`
	BU   bool       `json:"bu"`
}

// scCaseProg: the program executed for one state of OciScopeMC.
func scCaseProg(rnd *rand.Rand, u [][]string, c scCase, full bool) scProg {
	pick := func(idx []int) [][]string {
		out := [][]string{}
		for _, i := range idx {
			out = append(out, u[i-1])
		}
		return out
	}
	a, b := pick(c.A), pick(c.B)
	probes := append([][]string{}, u...)
	probes = append(probes, []string{"repository", "", "push"}, []string{"repository", "catalog", "*"}, []string{"registry", "", "*"})
	var defs []scDef
	first := func(items [][]string, unl bool) scDef {
		if unl {
			return scRefDef("unl", 0, 0)
		}
		return scNewDef(items)
	}
	if c.Kind == "single" {
		if c.AU {
			defs = []scDef{scRefDef("unl", 0, 0), scRefDef("zero", 0, 0), scRefDef("union", 1, 2), scRefDef("union", 2, 1),
				scNewDef(u), scRefDef("union", 5, 1), scRefDef("union", 3, 5), scRefDef("canon", 1, 0)}
		} else {
			defs = []scDef{
				scNewDef(a),                     // 1
				scNewDef(scShuffled(rnd, a, 2)), // 2 permuted, with repetitions
				scParseDef(rnd, scShuffled(rnd, a, 1), false, true), // 3 one field per triple
				scParseDef(rnd, scShuffled(rnd, a, 2), true, false), // 4 grouped actions, odd white space
				scRefDef("canon", 4, 0),                             // 5
				scRefDef("union", 1, 2),                             // 6 adds nothing
				scRefDef("zero", 0, 0),                              // 7
				scRefDef("union", 7, 1),                             // 8
				scRefDef("union", 4, 7),                             // 9 adds nothing to a parsed scope
				scRefDef("union", 3, 5),                             // 10 adds nothing to a parsed scope
			}
		}
	} else {
		defs = []scDef{
			first(a, c.AU),          // 1
			first(b, c.BU),          // 2
			scRefDef("union", 1, 2), // 3
			scRefDef("union", 2, 1), // 4
		}
		if !full {
			defs = append(defs, scRefDef("union", 3, 2)) // 5 adds nothing to a union
			return scProg{Slim: true, Src: "tlc", Defs: defs, Probes: probes}
		}
		if c.AU {
			defs = append(defs, scRefDef("zero", 0, 0))
		} else {
			defs = append(defs, scParseDef(rnd, scShuffled(rnd, a, 1), rnd.Intn(2) == 0, rnd.Intn(2) == 0)) // 5
		}
		defs = append(defs,
			scRefDef("union", 5, 2),           // 6 keeps the text of 5 iff b adds nothing
			scRefDef("union", 3, 2),           // 7 adds nothing to a union
			scNewDef([][]string{u[len(u)-1]}), // 8
			scRefDef("union", 1, 8),           // 9 a second union from receiver 1 (3 is the first)
			scRefDef("union", 3, 8),           // 10 and from the union 3
			scRefDef("union", 3, 1),           // 11 adds nothing to 3
		)
	}
	return scProg{Src: "tlc", Defs: defs, Probes: probes}
}

// ------------------------------------------------------------ random programs

var (
	scTypes   = []string{"repository", "repository", "repository", "registry", "other", "foo", "repo", "repositories", "Repository", "registry2", "", "a:b", "x y", "t,u", "*"}
	scRepos   = []string{"", "a", "b", "ab", "a/b", "a-b", "catalog", "foo/bar", "lib/x", "x", "A", "a:b", "a b", "a,b", "catalog2", "cat"}
	scActions = []string{"pull", "push", "pull", "push", "delete", "*", "+", "", "pul", "pullx", "Pull", "p,q", "p q", "a:b", "y"}
)

func scRandTriple(rnd *rand.Rand, repos []string) []string {
	switch r := rnd.Intn(100); {
	case r < 45: // known action on some repository
		return []string{"repository", repos[rnd.Intn(len(repos))], []string{"pull", "push"}[rnd.Intn(2)]}
	case r < 53:
		return []string{"registry", "catalog", "*"}
	case r < 60: // near misses of the catalog scope
		return [][]string{{"registry", "catalog", "+"}, {"registry", "catalog", ""}, {"registry", "", "*"}, {"registry", "catalog", "pull"},
			{"registry", "cat", "*"}, {"repository", "catalog", "*"}, {"registry", "catalog2", "*"}}[rnd.Intn(7)]
	case r < 70: // unknown action on a repository
		return []string{"repository", repos[rnd.Intn(len(repos))], scActions[rnd.Intn(len(scActions))]}
	case r < 80: // opaque words
		return []string{[]string{"foo", "bar", "a:b", "a:b:c:d", ":", "x,y", "repository", "registry", "pull", "zz"}[rnd.Intn(10)], "", ""}
	case r < 86: // empty repository name
		return []string{"repository", "", []string{"pull", "push", "delete", ""}[rnd.Intn(4)]}
	case r < 93: // other types on the resource names of the repositories, sorting before and after "repository"
		return []string{[]string{"service", "zone", "repositoryx", "repositorz", "registry", "other", "repositor"}[rnd.Intn(7)],
			repos[rnd.Intn(len(repos))], []string{"read", "pull", "x", "*"}[rnd.Intn(4)]}
	}
	return []string{scTypes[rnd.Intn(len(scTypes))], scRepos[rnd.Intn(len(scRepos))], scActions[rnd.Intn(len(scActions))]}
}

// scLate: a triple that is not a known repository/catalog scope, of a type sorting late.
func scLate(rnd *rand.Rand, repos []string) []string {
	return []string{[]string{"service", "zone", "zz", "repositoryx", "s", "t,u", "repository"}[rnd.Intn(7)],
		repos[rnd.Intn(len(repos))], []string{"read", "x", "zap", "delete", "+"}[rnd.Intn(5)]}
}

// scFanProg: one receiver (built by NewScope, ParseScope or a union) and several unions from it,
// all results kept; the spec's values are unaffected by the order of evaluation, the code's
// must be too.
func scFanProg(rnd *rand.Rand) scProg {
	repos := []string{"a", "b", fmt.Sprintf("r%d", rnd.Intn(40))}
	var base [][]string
	for i, n := 0, rnd.Intn(10); i < n; i++ { // 0..9 entries that are not known scopes
		t := scRandTriple(rnd, repos)
		if rnd.Intn(2) == 0 {
			t = []string{[]string{"aa", "foo", "other", "registry", "b,c"}[rnd.Intn(5)], scRepos[rnd.Intn(len(scRepos))], scActions[rnd.Intn(len(scActions))]}
		}
		base = append(base, t)
	}
	for i, n := 0, rnd.Intn(3); i < n; i++ {
		base = append(base, []string{"repository", repos[rnd.Intn(len(repos))], []string{"pull", "push"}[rnd.Intn(2)]})
	}
	var defs []scDef
	switch rnd.Intn(3) {
	case 0:
		defs = append(defs, scNewDef(scShuffled(rnd, base, rnd.Intn(2))))
	case 1:
		defs = append(defs, scParseDef(rnd, scShuffled(rnd, base, rnd.Intn(2)), rnd.Intn(2) == 0, rnd.Intn(2) == 0))
	default:
		h := len(base) / 2
		defs = append(defs, scNewDef(base[:h]), scNewDef(base[h:]), scRefDef("union", 1, 2))
	}
	recv := len(defs)
	probes := [][]string{{"registry", "catalog", "*"}, {"repository", "", "pull"}}
	var results []int
	for i, n := 0, 2+rnd.Intn(3); i < n; i++ {
		add := [][]string{scLate(rnd, repos)}
		if rnd.Intn(3) == 0 {
			add = append(add, scLate(rnd, repos))
		}
		probes = append(probes, add[0])
		defs = append(defs, scNewDef(add))
		from := recv
		if len(results) > 0 && rnd.Intn(3) == 0 {
			from = results[rnd.Intn(len(results))] // a union result as receiver
		}
		defs = append(defs, scRefDef("union", from, len(defs)))
		results = append(results, len(defs))
	}
	for _, t := range base {
		if len(probes) < 10 {
			probes = append(probes, t)
		}
	}
	return scProg{Src: "rand", Defs: defs, Probes: probes}
}

func scRandProg(rnd *rand.Rand) scProg {
	if rnd.Intn(5) == 0 {
		return scFanProg(rnd)
	}
	// the repositories in play: a few, or many
	var repos []string
	nrepo := 1 + rnd.Intn(4)
	if rnd.Intn(6) == 0 {
		nrepo = 8 + rnd.Intn(25)
	}
	for i := 0; i < nrepo; i++ {
		if rnd.Intn(3) == 0 {
			repos = append(repos, scRepos[rnd.Intn(len(scRepos))])
		} else {
			repos = append(repos, fmt.Sprintf("r%d", rnd.Intn(40)))
		}
	}
	// a local universe so that values overlap, include and equal one another
	nu := 2 + rnd.Intn(8)
	if nrepo > 4 {
		nu = 10 + rnd.Intn(30)
	}
	u := make([][]string, nu)
	for i := range u {
		u[i] = scRandTriple(rnd, repos)
	}
	sample := func() [][]string {
		out := [][]string{}
		p := []int{15, 40, 60, 85}[rnd.Intn(4)]
		for _, t := range u {
			if rnd.Intn(100) < p {
				out = append(out, t)
			}
		}
		return scShuffled(rnd, out, rnd.Intn(3))
	}
	var lit [][][]string // the literal item lists used so far
	var defs []scDef
	n := 2 + rnd.Intn(5)
	for len(defs) < n {
		i := len(defs) + 1
		r := rnd.Intn(100)
		var items [][]string
		if len(lit) > 0 && rnd.Intn(3) == 0 {
			// re-use an earlier literal: same elements, a part of them, or a few more
			items = lit[rnd.Intn(len(lit))]
			switch rnd.Intn(3) {
			case 0:
				items = scShuffled(rnd, items, 1)
			case 1:
				items = scShuffled(rnd, items, 0)
				items = items[:rnd.Intn(len(items)+1)]
			default:
				items = append(scShuffled(rnd, items, 0), u[rnd.Intn(len(u))])
			}
		} else {
			items = sample()
		}
		switch {
		case r < 38:
			defs = append(defs, scNewDef(items))
			lit = append(lit, items)
		case r < 62:
			d := scParseDef(rnd, items, rnd.Intn(2) == 0, rnd.Intn(3) == 0)
			defs = append(defs, d)
			kept := [][]string{}
			for _, t := range items {
				if scExpressible(t) {
					kept = append(kept, t)
				}
			}
			lit = append(lit, kept)
		case r < 90 && i > 1:
			defs = append(defs, scRefDef("union", 1+rnd.Intn(i-1), 1+rnd.Intn(i-1)))
		case r < 93 && i > 1:
			defs = append(defs, scRefDef("canon", 1+rnd.Intn(i-1), 0))
		case r < 96:
			defs = append(defs, scRefDef("unl", 0, 0))
		case r < 100:
			defs = append(defs, scRefDef("zero", 0, 0))
		}
	}
	probes := [][]string{{"registry", "catalog", "*"}, {"repository", "", "pull"}}
	for _, t := range u {
		if rnd.Intn(100) < 60 || len(u) < 6 {
			probes = append(probes, t)
		}
	}
	for i := rnd.Intn(4); i > 0; i-- {
		probes = append(probes, scRandTriple(rnd, repos))
	}
	if len(probes) > 14 {
		rnd.Shuffle(len(probes)-2, func(i, j int) { probes[i+2], probes[j+2] = probes[j+2], probes[i+2] })
		probes = probes[:14]
	}
	return scProg{Src: "rand", Defs: defs, Probes: probes}
}

// --------------------------------------------------------------------- command

func scopeCmd(args []string) error {
	fs := flag.NewFlagSet("scope", flag.ExitOnError)
	seed := fs.Int64("seed", 1, "seed (shuffles, white space, random programs)")
	n := fs.Int("n", 0, "number of random programs")
	cases := fs.String("cases", "", "jsonl file of OciScopeMC cases (first the universe line)")
	fullEvery := fs.Int("full-every", 1, "pairs: run the long program (scope strings, interrupted iteration, print/parse) on every k-th pair, the short one on the others")
	replay := fs.String("replay", "", "trace or replay file whose programs are re-executed")
	out := fs.String("out", "", "trace file")
	fs.Parse(args)
	rnd := rand.New(rand.NewSource(*seed))
	var progs []scProg
	readLines := func(path string, f func(line []byte) error) error {
		fh, err := os.Open(path)
		if err != nil {
			return err
		}
		defer fh.Close()
		sc := bufio.NewScanner(fh)
		sc.Buffer(make([]byte, 1<<20), 1<<26)
		for sc.Scan() {
			if err := f(sc.Bytes()); err != nil {
				return err
			}
		}
		return sc.Err()
	}
	if *cases != "" {
		var u [][]string
		npair := 0
		err := readLines(*cases, func(line []byte) error {
			var c scCase
			if err := json.Unmarshal(line, &c); err != nil {
				return fmt.Errorf("case: %v", err)
			}
			if c.Kind == "universe" {
				u = c.U
				return nil
			}
			if u == nil {
				return fmt.Errorf("case before the universe line")
			}
			npair++
			progs = append(progs, scCaseProg(rnd, u, c, c.Kind == "single" || npair%*fullEvery == 0))
			return nil
		})
		if err != nil {
			return err
		}
	}
	if *replay != "" {
		err := readLines(*replay, func(line []byte) error {
			var p struct {
				Op string `json:"op"`
				scProg
			}
			if err := json.Unmarshal(line, &p); err != nil {
				return fmt.Errorf("replay: %v", err)
			}
			if p.Op != "case" && p.Op != "panic" {
				return nil
			}
			for i := range p.Defs {
				if o := p.Defs[i].Obs; o != nil {
					if len(o.Walks) > 1 {
						p.Defs[i].m = o.Walks[1].M
					}
				}
				p.Defs[i].Obs = nil
			}
			progs = append(progs, p.scProg)
			return nil
		})
		if err != nil {
			return err
		}
	}
	for i := 0; i < *n; i++ {
		progs = append(progs, scRandProg(rnd))
	}
	f, err := os.Create(*out)
	if err != nil {
		return err
	}
	defer f.Close()
	bw := bufio.NewWriterSize(f, 1<<20)
	defer bw.Flush()
	enc := json.NewEncoder(bw)
	enc.SetEscapeHTML(false)
	enc.Encode(scHeader(progs))
	for _, p := range progs {
		enc.Encode(map[string]string{"op": "reset"})
		enc.Encode(scExec(p, rnd))
	}
	fmt.Printf("{\"programs\":%d}\n", len(progs))
	return nil
}
