package main

import (
	"bytes"
	"context"
	"fmt"
	"io"
	"net/http"
	"net/http/httptest"
	"net/url"
	"regexp"
	"strconv"
	"strings"
	"sync/atomic"
	"time"

	"cuelabs.dev/go/oci/ociregistry"
	"cuelabs.dev/go/oci/ociregistry/ociclient"
	"cuelabs.dev/go/oci/ociregistry/ocidebug"
	"cuelabs.dev/go/oci/ociregistry/ocifilter"
	"cuelabs.dev/go/oci/ociregistry/ocimem"
	"cuelabs.dev/go/oci/ociregistry/ociserver"
	"cuelabs.dev/go/oci/ociregistry/ociunify"
)

// stackEnv collects what building a stack creates.
type stackEnv struct {
	imm      bool
	mems     []*ocimem.Registry
	closers  []func()
	srvOpts  ociserver.Options
	pageSize int
	wrapMem  func(ociregistry.Interface) ociregistry.Interface // e.g. a recording backend
	// wrapHandler, if set, wraps the handler of every HTTP hop (innermost hop first)
	wrapHandler func(http.Handler) http.Handler
	inflight    atomic.Int64
	curOp       atomic.Int64 // number of the client-side call being executed
	subPrefix   string       // set when the stack contains sub(...): names underneath carry this prefix
	minChunk    int          // chunk size the registry underneath advertises (0: ocimem's 8 KiB)
	transports  []*http.Transport
	serverURL   string // URL of the outermost HTTP server of the stack (built last)
	singlePost  bool
}

// smallChunks wraps a registry so that its upload writers report a small ChunkSize.
type smallChunks struct {
	ociregistry.Interface
	k int
}

type smallWriter struct {
	ociregistry.BlobWriter
	k int
}

func (w smallWriter) ChunkSize() int { return w.k }

func (s *smallChunks) PushBlobChunked(ctx context.Context, repo string, chunkSize int) (ociregistry.BlobWriter, error) {
	w, err := s.Interface.PushBlobChunked(ctx, repo, chunkSize)
	if err != nil {
		return nil, err
	}
	return smallWriter{w, s.k}, nil
}

func (s *smallChunks) PushBlobChunkedResume(ctx context.Context, repo, id string, offset int64, chunkSize int) (ociregistry.BlobWriter, error) {
	w, err := s.Interface.PushBlobChunkedResume(ctx, repo, id, offset, chunkSize)
	if err != nil {
		return nil, err
	}
	return smallWriter{w, s.k}, nil
}

type opTagKey struct{}

// tagTransport labels every outgoing request with the number of the client-side call it
// belongs to, so that backend calls can be attributed even when a server handler outlives
// the client call that caused it.
type tagTransport struct {
	env  *stackEnv
	base http.RoundTripper
}

func (t *tagTransport) RoundTrip(req *http.Request) (*http.Response, error) {
	n := t.env.curOp.Load()
	if v, ok := req.Context().Value(opTagKey{}).(int64); ok {
		n = v
	}
	req = req.Clone(req.Context())
	req.Header.Set("X-Verif-Op", fmt.Sprint(n))
	return t.base.RoundTrip(req)
}

func tagOf(ctx context.Context) int64 {
	if v, ok := ctx.Value(opTagKey{}).(int64); ok {
		return v
	}
	return -1
}

func (env *stackEnv) newTransport() *http.Transport {
	t := &http.Transport{DisableKeepAlives: false, MaxIdleConnsPerHost: 4}
	env.transports = append(env.transports, t)
	return t
}

// resetConns drops every pooled connection of the stack's clients.  Called after a call that
// ended in a transport error (a request aborted half-way leaves connections in a state where the
// next, unrelated request on them can fail), so that such noise never reaches a later call.
func (env *stackEnv) resetConns() {
	env.quiesce()
	for _, t := range env.transports {
		t.CloseIdleConnections()
	}
	time.Sleep(2 * time.Millisecond)
	env.quiesce()
}

// quiesce waits until no server handler is running (a handler can outlive the client call
// that caused it, e.g. when the transport aborts a request whose body is short).
func (env *stackEnv) quiesce() {
	for i := 0; i < 10000; i++ {
		if env.inflight.Load() == 0 {
			return
		}
		time.Sleep(500 * time.Microsecond)
	}
}

func (env *stackEnv) close() {
	for i := len(env.closers) - 1; i >= 0; i-- {
		env.closers[i]()
	}
}

// build parses a stack expression: mem | http(X) | debug(X) | select(X) | sub(X) | ro(X)
// | immw(X) | unify(X,Y) | unifyc(X,Y).
func (env *stackEnv) build(s string) (ociregistry.Interface, string, error) {
	s = strings.TrimSpace(s)
	name := s
	rest := ""
	if i := strings.IndexAny(s, "(,)"); i >= 0 {
		name, rest = s[:i], s[i:]
	}
	if name == "mem" {
		m := ocimem.NewWithConfig(&ocimem.Config{ImmutableTags: env.imm})
		env.mems = append(env.mems, m)
		var r ociregistry.Interface = m
		if env.wrapMem != nil {
			r = env.wrapMem(r)
		}
		return r, rest, nil
	}
	if !strings.HasPrefix(rest, "(") {
		return nil, "", fmt.Errorf("bad stack expression %q", s)
	}
	var args []ociregistry.Interface
	rest = rest[1:]
	for {
		a, r, err := env.build(rest)
		if err != nil {
			return nil, "", err
		}
		args = append(args, a)
		r = strings.TrimSpace(r)
		if strings.HasPrefix(r, ",") {
			rest = r[1:]
			continue
		}
		if strings.HasPrefix(r, ")") {
			rest = r[1:]
			break
		}
		return nil, "", fmt.Errorf("bad stack expression near %q", r)
	}
	opts := ""
	if i := strings.Index(name, ":"); i >= 0 {
		name, opts = name[:i], name[i+1:]
	}
	switch name {
	case "http":
		// options: omitdigest, nolink, nosingle, maxN (server page limit), pageN (client page size)
		so := env.srvOpts
		page := env.pageSize
		for _, o := range strings.Split(opts, "+") {
			switch {
			case o == "":
			case o == "omitdigest":
				so.OmitDigestFromTagGetResponse = true
			case o == "nolink":
				so.OmitLinkHeaderFromResponses = true
			case o == "nosingle":
				so.DisableSinglePostUpload = true
			case o == "redir":
				// blobs are served from another location: the server answers GETs of blobs with a redirect
				// to a content-addressed side server (LocationsForDescriptor)
				cdn := httptest.NewServer(http.HandlerFunc(func(w http.ResponseWriter, req *http.Request) {
					env.serveByDigest(w, req)
				}))
				env.closers = append(env.closers, cdn.Close)
				so.LocationsForDescriptor = func(isManifest bool, desc ociregistry.Descriptor) ([]string, error) {
					if isManifest {
						return nil, nil
					}
					return []string{cdn.URL + "/" + string(desc.Digest)}, nil
				}
			case strings.HasPrefix(o, "max"):
				fmt.Sscanf(o[3:], "%d", &so.MaxListPageSize)
			case strings.HasPrefix(o, "page"):
				fmt.Sscanf(o[4:], "%d", &page)
			default:
				return nil, "", fmt.Errorf("unknown http option %q", o)
			}
		}
		var h http.Handler = ociserver.New(args[0], &so)
		if env.wrapHandler != nil {
			h = env.wrapHandler(h)
		}
		srv := httptest.NewServer(http.HandlerFunc(func(w http.ResponseWriter, req *http.Request) {
			env.inflight.Add(1)
			defer env.inflight.Add(-1)
			// carry the number of the client-side call this request belongs to
			if t := req.Header.Get("X-Verif-Op"); t != "" {
				var n int64
				fmt.Sscanf(t, "%d", &n)
				req = req.WithContext(context.WithValue(req.Context(), opTagKey{}, n))
			}
			h.ServeHTTP(w, req)
		}))
		env.closers = append(env.closers, srv.Close)
		env.serverURL = srv.URL // the outermost server is built last
		env.singlePost = !so.DisableSinglePostUpload
		u, _ := url.Parse(srv.URL)
		c, err := ociclient.New(u.Host, &ociclient.Options{Insecure: true, ListPageSize: page,
			Transport: &tagTransport{env: env, base: env.newTransport()}})
		if err != nil {
			return nil, "", err
		}
		return c, rest, nil
	case "debug":
		return ocidebug.New(args[0], func(string, ...any) {}), rest, nil
	case "select":
		return ocifilter.Select(args[0], func(string) bool { return true }), rest, nil
	case "small":
		// the registry underneath advertises a tiny minimum chunk size, so that a client's
		// byte-sized chunk hints take effect
		k := 1
		fmt.Sscanf(opts, "%d", &k)
		env.minChunk = k
		return &smallChunks{Interface: args[0], k: k}, rest, nil
	case "sub":
		env.subPrefix = "pfx/sub"
		return ocifilter.Sub(args[0], env.subPrefix), rest, nil
	case "funcs", "funcsnr":
		// the registry as a function table (*ociregistry.Funcs with every field set and an error constructor):
		// a pass-through, and the shape other wrappers may recognise
		x := args[0]
		f := &ociregistry.Funcs{
			NewError: func(ctx context.Context, methodName, repo string) error {
				return fmt.Errorf("%s %s: %w", methodName, repo, ociregistry.ErrUnsupported)
			},
			GetBlob_: x.GetBlob, GetBlobRange_: x.GetBlobRange, GetManifest_: x.GetManifest, GetTag_: x.GetTag,
			ResolveBlob_: x.ResolveBlob, ResolveManifest_: x.ResolveManifest, ResolveTag_: x.ResolveTag,
			PushBlob_: x.PushBlob, PushBlobChunked_: x.PushBlobChunked, PushBlobChunkedResume_: x.PushBlobChunkedResume,
			MountBlob_: x.MountBlob, PushManifest_: x.PushManifest,
			DeleteBlob_: x.DeleteBlob, DeleteManifest_: x.DeleteManifest, DeleteTag_: x.DeleteTag,
			Repositories_: x.Repositories, Tags_: x.Tags, Referrers_: x.Referrers,
		}
		if name == "funcsnr" {
			// a registry without range reads: GetBlobRange answers "unsupported"
			f.GetBlobRange_ = nil
		}
		return f, rest, nil
	case "ro":
		return ocifilter.ReadOnly(args[0]), rest, nil
	case "immw":
		return ocifilter.Immutable(args[0]), rest, nil
	case "unify", "unifyc":
		if len(args) != 2 {
			return nil, "", fmt.Errorf("unify needs two members")
		}
		pol := ociunify.ReadSequential
		if name == "unifyc" {
			pol = ociunify.ReadConcurrent
		}
		return ociunify.New(args[0], args[1], &ociunify.Options{ReadPolicy: pol}), rest, nil
	}
	return nil, "", fmt.Errorf("unknown stack element %q", name)
}

var cdnRange = regexp.MustCompile(`^bytes=([0-9]+)-([0-9]*)$`)

// serveByDigest serves the blob with the digest named by the URL path from whichever
// repository of the in-memory registries underneath holds it (a content-addressed store).
func (env *stackEnv) serveByDigest(w http.ResponseWriter, req *http.Request) {
	dig := ociregistry.Digest(strings.TrimPrefix(req.URL.Path, "/"))
	ctx := req.Context()
	for _, m := range env.mems {
		repos, _ := ociregistry.All(m.Repositories(ctx, ""))
		for _, r := range repos {
			rd, err := m.GetBlob(ctx, r, dig)
			if err != nil {
				continue
			}
			data, _ := io.ReadAll(rd)
			rd.Close()
			w.Header().Set("Docker-Content-Digest", string(dig))
			w.Header().Set("Content-Type", rd.Descriptor().MediaType)
			// Range handling as strict as the registry's own: one "bytes=N-" or "bytes=N-M" (M >= N) range;
			// a range starting exactly at the end is the empty slice; anything else malformed is refused.
			if rng := req.Header.Get("Range"); rng != "" {
				m := cdnRange.FindStringSubmatch(rng)
				if m == nil {
					http.Error(w, "invalid range", http.StatusRequestedRangeNotSatisfiable)
					return
				}
				start, _ := strconv.Atoi(m[1])
				if m[2] != "" {
					if end, _ := strconv.Atoi(m[2]); end < start {
						http.Error(w, "invalid range", http.StatusRequestedRangeNotSatisfiable)
						return
					}
				}
				if start > len(data) {
					http.Error(w, "range starts after end", http.StatusRequestedRangeNotSatisfiable)
					return
				}
				if start == len(data) {
					w.Header().Set("Content-Range", fmt.Sprintf("bytes %d-%d/%d", start, start-1, len(data)))
					w.Header().Set("Content-Length", "0")
					w.WriteHeader(http.StatusPartialContent)
					return
				}
			}
			http.ServeContent(w, req, "", time.Time{}, bytes.NewReader(data))
			return
		}
	}
	http.Error(w, "no such blob", http.StatusNotFound)
}
