package main

import (
	"fmt"
	"net/http"
	"net/http/httptest"
	"net/url"
	"strings"

	"cuelabs.dev/go/oci/ociregistry"
	"cuelabs.dev/go/oci/ociregistry/ociclient"
	"cuelabs.dev/go/oci/ociregistry/ocidebug"
	"cuelabs.dev/go/oci/ociregistry/ocifilter"
	"cuelabs.dev/go/oci/ociregistry/ocimem"
	"cuelabs.dev/go/oci/ociregistry/ociserver"
	"cuelabs.dev/go/oci/ociregistry/ociunify"
)

// stackEnv collects what building a stack creates.
type stackEnv struct {
	imm      bool
	mems     []*ocimem.Registry
	closers  []func()
	srvOpts  ociserver.Options
	pageSize int
	wrapMem  func(ociregistry.Interface) ociregistry.Interface // e.g. a recording backend
}

func (env *stackEnv) close() {
	for i := len(env.closers) - 1; i >= 0; i-- {
		env.closers[i]()
	}
}

// build parses a stack expression: mem | http(X) | debug(X) | select(X) | sub(X) | ro(X)
// | immw(X) | unify(X,Y) | unifyc(X,Y).
func (env *stackEnv) build(s string) (ociregistry.Interface, string, error) {
	s = strings.TrimSpace(s)
	name := s
	rest := ""
	if i := strings.IndexAny(s, "(,)"); i >= 0 {
		name, rest = s[:i], s[i:]
	}
	if name == "mem" {
		m := ocimem.NewWithConfig(&ocimem.Config{ImmutableTags: env.imm})
		env.mems = append(env.mems, m)
		var r ociregistry.Interface = m
		if env.wrapMem != nil {
			r = env.wrapMem(r)
		}
		return r, rest, nil
	}
	if !strings.HasPrefix(rest, "(") {
		return nil, "", fmt.Errorf("bad stack expression %q", s)
	}
	var args []ociregistry.Interface
	rest = rest[1:]
	for {
		a, r, err := env.build(rest)
		if err != nil {
			return nil, "", err
		}
		args = append(args, a)
		r = strings.TrimSpace(r)
		if strings.HasPrefix(r, ",") {
			rest = r[1:]
			continue
		}
		if strings.HasPrefix(r, ")") {
			rest = r[1:]
			break
		}
		return nil, "", fmt.Errorf("bad stack expression near %q", r)
	}
	switch name {
	case "http":
		srv := httptest.NewServer(ociserver.New(args[0], &env.srvOpts))
		env.closers = append(env.closers, srv.Close)
		u, _ := url.Parse(srv.URL)
		c, err := ociclient.New(u.Host, &ociclient.Options{Insecure: true, ListPageSize: env.pageSize,
			Transport: &http.Transport{DisableKeepAlives: false, MaxIdleConnsPerHost: 4}})
		if err != nil {
			return nil, "", err
		}
		return c, rest, nil
	case "debug":
		return ocidebug.New(args[0], func(string, ...any) {}), rest, nil
	case "select":
		return ocifilter.Select(args[0], func(string) bool { return true }), rest, nil
	case "ro":
		return ocifilter.ReadOnly(args[0]), rest, nil
	case "immw":
		return ocifilter.Immutable(args[0]), rest, nil
	case "unify", "unifyc":
		if len(args) != 2 {
			return nil, "", fmt.Errorf("unify needs two members")
		}
		pol := ociunify.ReadSequential
		if name == "unifyc" {
			pol = ociunify.ReadConcurrent
		}
		return ociunify.New(args[0], args[1], &ociunify.Options{ReadPolicy: pol}), rest, nil
	}
	return nil, "", fmt.Errorf("unknown stack element %q", name)
}
